#include "libcola/cola.h"
#include <cstdio>
#include <cstdlib>
#include <cstdint>
#include <cmath>
#include <vector>
using namespace cola;
static uint64_t r=1; static uint64_t nx(){ r^=r<<13; r^=r>>7; r^=r<<17; return r; }
struct StopAt: TestConvergence { int k; int calls=0; StopAt(int k):TestConvergence(1e-4,100),k(k){} bool operator()(const double s,std::valarray<double>&X,std::valarray<double>&Y){ calls++; if(calls>=k) return true; return TestConvergence::operator()(s,X,Y);} };
struct Pre: PreIteration { Locks lk; Resizes rz; int calls=0; int lockAt, unlockAt, intrAt; unsigned node; double lx,ly; Pre():PreIteration(lk,rz){} bool operator()(){ calls++; if(calls==lockAt){ lk.push_back(Lock(node,lx,ly)); changed=true; } if(calls==unlockAt){ lk.clear(); changed=true;} if(calls==intrAt) return false; return true; } };
int main(int argc,char**argv){ uint64_t seed=atoll(argv[1]); int mode=atoi(argv[2]); r=seed*2654435761u+9090;
  int n=2+nx()%8; vpsc::Rectangles rs; std::vector<std::pair<double,double>> dims; for(int i=0;i<n;i++){ double w=10+(nx()%5)*10,h=10+(nx()%4)*10; double x=(mode&8)?50:double(nx()%300), y=(mode&8)?50:double(nx()%300); rs.push_back(new vpsc::Rectangle(x,x+w,y,y+h)); dims.push_back({w,h}); }
  std::vector<Edge> es; for(int i=1;i<n;i++) if(nx()%4) es.push_back({nx()%i,i}); int extra=nx()%3; for(int k=0;k<extra;k++){ unsigned a=nx()%n,b=nx()%n; if(a!=b) es.push_back({a,b}); }
  CompoundConstraints ccs; struct Sep{int dim; unsigned l,r; double g; bool eq;}; std::vector<Sep> seps; struct Al{int dim; std::vector<std::pair<unsigned,double>> sh; AlignmentConstraint* ac;}; std::vector<Al> als;
  // acyclic separations: l<r index order so jointly satisfiable
  int ns=nx()%4; for(int k=0;k<ns;k++){ unsigned a=nx()%n,b=nx()%n; if(a==b) continue; if(a>b) std::swap(a,b); int dim=nx()%2; double g=double(nx()%6)*10; bool eq=(nx()%5==0); if(eq){ bool dup=false; for(auto&s:seps) if(s.dim==dim&&((s.l==a&&s.r==b))) dup=true; if(dup) continue;} seps.push_back({dim,a,b,g,eq}); ccs.push_back(new SeparationConstraint((vpsc::Dim)dim,a,b,g,eq)); }
  if((mode&1) && n>=3 && nx()%2){ int dim=nx()%2; Al al; al.dim=dim; al.ac=new AlignmentConstraint((vpsc::Dim)dim); unsigned a=nx()%n,b=(a+1+nx()%(n-1))%n; al.sh.push_back({a,0}); al.sh.push_back({b,double(int(nx()%3)-1)*5}); bool conflict=false; for(auto&s:seps) if(s.dim==dim) conflict=true; if(!conflict){ for(auto&p:al.sh) al.ac->addShape(p.first,p.second); ccs.push_back(al.ac); als.push_back(al);} }
  StopAt done(1+nx()%12); Pre pre; pre.lockAt=(mode&4)?1+nx()%10:-1; pre.unlockAt=(mode&4)&&nx()%2?pre.lockAt+1+nx()%10:-1; pre.intrAt=(mode&4)&&nx()%3==0?1+nx()%30:-1; pre.node=nx()%n; pre.lx=double(nx()%300); pre.ly=double(nx()%300);
  ConstrainedFDLayout alg(rs,es,50,StandardEdgeLengths,&done,(mode&4)?&pre:nullptr);
  alg.setConstraints(ccs); bool nonov=mode&2; alg.setAvoidNodeOverlaps(nonov);
  UnsatisfiableConstraintInfos ux,uy; alg.setUnsatisfiableConstraintInfo(&ux,&uy);
  int bad=0; try{ if(nx()%2) alg.makeFeasible(); alg.run(); } catch(...){ printf("seed %llu exception\n",(unsigned long long)seed); bad++; }
  for(int i=0;i<n;i++){ if(fabs(rs[i]->width()-dims[i].first)>1e-9||fabs(rs[i]->height()-dims[i].second)>1e-9){ printf("seed %llu size changed\n",(unsigned long long)seed); bad++; } if(!std::isfinite(rs[i]->getCentreX())||!std::isfinite(rs[i]->getCentreY())){ printf("seed %llu nonfinite\n",(unsigned long long)seed); bad++; } }
  bool anyunsat=!ux.empty()||!uy.empty();
  if(!anyunsat){ for(auto&s:seps){ double l=s.dim?rs[s.l]->getCentreY():rs[s.l]->getCentreX(), rr=s.dim?rs[s.r]->getCentreY():rs[s.r]->getCentreX(); if(l+s.g>rr+1e-4||(s.eq&&fabs(l+s.g-rr)>1e-4)){ printf("seed %llu sep violated dim %d: %g + %g vs %g eq=%d (iters=%d pre=%d)\n",(unsigned long long)seed,s.dim,l,s.g,rr,s.eq,done.calls,pre.calls); bad++; } }
    for(auto&a:als){ double p0=(a.dim?rs[a.sh[0].first]->getCentreY():rs[a.sh[0].first]->getCentreX())-a.sh[0].second; for(auto&p:a.sh){ double q=(a.dim?rs[p.first]->getCentreY():rs[p.first]->getCentreX())-p.second; if(fabs(q-p0)>1e-4){ printf("seed %llu alignment violated %g vs %g\n",(unsigned long long)seed,q,p0); bad++; } } }
    if(nonov){ for(int i=0;i<n;i++) for(int j=i+1;j<n;j++){ double ox=std::min(rs[i]->getMaxX(),rs[j]->getMaxX())-std::max(rs[i]->getMinX(),rs[j]->getMinX()); double oy=std::min(rs[i]->getMaxY(),rs[j]->getMaxY())-std::max(rs[i]->getMinY(),rs[j]->getMinY()); if(ox>1e-3&&oy>1e-3){ printf("seed %llu overlap %d %d by %g x %g (iters=%d)\n",(unsigned long long)seed,i,j,ox,oy,done.calls); bad++; } } } }
  else { /* unsatisfiable reported */ }
  return bad?1:0; }
