// E-MIX feasibility: per-task digest solo vs interleaved world
#include "libavoid/libavoid.h"
#include "libcola/cola.h"
#include "libvpsc/rectangle.h"
#include <thread>
#include <mutex>
#include <condition_variable>
#include <vector>
#include <set>
#include <cstdio>
#include <cstdlib>
#include <cstring>
#include <unistd.h>
#include <sys/wait.h>
extern "C" void simalloc_seed(uint64_t);
struct Rng{ uint64_t s; uint64_t next(){ s^=s<<13; s^=s>>7; s^=s<<17; return s; } };
static Rng sched; static std::mutex mu; static std::condition_variable cv; static int current=-1; static std::vector<int> state; static uint64_t dig[8]; static int borderViol=0;
static void ev(int me,uint64_t x){ dig[me]=(dig[me]^x)*1099511628211ULL; }
static void evd(int me,double v){ uint64_t a; memcpy(&a,&v,8); ev(me,a); }
static void pick(std::unique_lock<std::mutex>&lk){ std::vector<int> r; for(size_t i=0;i<state.size();i++) if(state[i]==0) r.push_back(i); if(r.empty()){ current=-2; cv.notify_all(); return; } current=r[sched.next()%r.size()]; cv.notify_all(); }
static void yield(int me){ if(vpsc::Rectangle::xBorder!=0||vpsc::Rectangle::yBorder!=0) borderViol++; std::unique_lock<std::mutex> lk(mu); pick(lk); cv.wait(lk,[&]{return current==me;}); }
static void start(int me){ std::unique_lock<std::mutex> lk(mu); cv.wait(lk,[&]{return current==me;}); }
static void finish(int me){ std::unique_lock<std::mutex> lk(mu); state[me]=1; pick(lk); }
struct MyRouter: Avoid::Router { int me; MyRouter(unsigned f,int me):Avoid::Router(f),me(me){} bool shouldContinueTransactionWithProgress(unsigned el,unsigned ph,unsigned tot,double prop){ if(ph!=Avoid::TransactionPhaseCompleted) yield(me); return true; } };
struct Conv: cola::TestConvergence { int me; Conv(int me):cola::TestConvergence(1e-4,30),me(me){} bool operator()(const double s,std::valarray<double>&X,std::valarray<double>&Y){ yield(me); return cola::TestConvergence::operator()(s,X,Y);} };
static void routerTask(int me,uint64_t seed,int ortho){ start(me); Rng r{seed*77+11}; MyRouter* router=new MyRouter(ortho?Avoid::OrthogonalRouting:Avoid::PolyLineRouting,me); router->setRoutingParameter(Avoid::crossingPenalty,ortho?200:0); std::vector<Avoid::ShapeRef*> sh; for(int i=0;i<6;i++){ double x=(i%3)*120+(r.next()%3)*10,y=(i/3)*100+(r.next()%3)*10; Avoid::Rectangle rr(Avoid::Point(x,y),Avoid::Point(x+50,y+40)); sh.push_back(new Avoid::ShapeRef(router,rr)); } std::vector<Avoid::ConnRef*> cs; for(int i=0;i<5;i++){ cs.push_back(new Avoid::ConnRef(router,Avoid::ConnEnd(Avoid::Point(double(r.next()%400),double(300+r.next()%50))),Avoid::ConnEnd(Avoid::Point(double(r.next()%400),double(-60+int(r.next()%40)))))); }
  for(int st=0;st<3;st++){ router->processTransaction(); for(auto c:cs) for(auto&p:c->displayRoute().ps){ evd(me,p.x); evd(me,p.y);} yield(me); router->moveShape(sh[r.next()%6],double(r.next()%20),double(r.next()%20)); }
  delete router; finish(me); }
static void layoutTask(int me,uint64_t seed){ start(me); Rng r{seed*131+7}; vpsc::Rectangles rs; int n=7; for(int i=0;i<n;i++){ double x=double(r.next()%200),y=double(r.next()%200); rs.push_back(new vpsc::Rectangle(x,x+20+(r.next()%3)*10,y,y+20)); } std::vector<cola::Edge> es; for(int i=1;i<n;i++) es.push_back({r.next()%i,i}); Conv conv(me); cola::CompoundConstraints ccs; ccs.push_back(new cola::SeparationConstraint(vpsc::XDIM,0,1,30)); cola::ConstrainedFDLayout alg(rs,es,50,cola::StandardEdgeLengths,&conv); alg.setConstraints(ccs); alg.setAvoidNodeOverlaps(true); alg.makeFeasible(); yield(me); alg.run(); for(auto q:rs){ evd(me,q->getCentreX()); evd(me,q->getCentreY()); delete q; } delete ccs[0]; finish(me); }
static void overlapTask(int me,uint64_t seed){ start(me); Rng r{seed*191+3}; for(int rep=0;rep<3;rep++){ vpsc::Rectangles rs; int n=10; for(int i=0;i<n;i++){ double x=double(r.next()%97)/1.3,y=double(r.next()%89)/1.7; rs.push_back(new vpsc::Rectangle(x,x+15+(r.next()%7),y,y+11+(r.next()%5))); } std::set<unsigned> fixed; vpsc::removeoverlaps(rs,fixed,rep%2); for(auto q:rs){ evd(me,q->getCentreX()); evd(me,q->getCentreY()); delete q; } yield(me); } finish(me); }
static void runWorld(uint64_t seed,int which,uint64_t out[8]){ // which: bitmask of tasks to run (solo or all)
  simalloc_seed(1); sched.s=seed*0x9E3779B97F4A7C15ULL+3; int N=5; state.assign(N,1); for(int i=0;i<N;i++){ dig[i]=1469598103934665603ULL; if(which&(1<<i)) state[i]=0; }
  std::vector<std::thread> th; if(which&1) th.emplace_back(routerTask,0,seed,0); if(which&2) th.emplace_back(routerTask,1,seed,1); if(which&4) th.emplace_back(layoutTask,2,seed); if(which&8) th.emplace_back(overlapTask,3,seed); if(which&16) th.emplace_back(layoutTask,4,seed+9);
  { std::unique_lock<std::mutex> lk(mu); pick(lk);} for(auto&t:th) t.join(); for(int i=0;i<N;i++) out[i]=dig[i]; out[7]=borderViol; }
static void child(uint64_t seed,int which,uint64_t out[8]){ int fd[2]; pipe(fd); pid_t p=fork(); if(p==0){ close(fd[0]); uint64_t o[8]={0}; runWorld(seed,which,o); write(fd[1],o,64); _exit(0);} close(fd[1]); memset(out,0,64); read(fd[0],out,64); close(fd[0]); int st; waitpid(p,&st,0); if(st) out[6]=st; }
int main(int argc,char**argv){ int N=atoi(argv[1]); int diffs[5]={0,0,0,0,0}; int bv=0, crash=0; for(int s=1;s<=N;s++){ uint64_t mixed[8]; child(s,31,mixed); if(mixed[6]) crash++; bv+=mixed[7]; for(int t=0;t<5;t++){ uint64_t solo[8]; child(s,1<<t,solo); if(solo[t]!=mixed[t]) diffs[t]++; } } printf("runs %d; solo-vs-mixed digest differences: polyRouter %d orthoRouter %d layout %d removeoverlaps %d layout2 %d; border!=0 at yields %d; crashes %d\n",N,diffs[0],diffs[1],diffs[2],diffs[3],diffs[4],bv,crash); return 0; }
