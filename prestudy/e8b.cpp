#include "libavoid/libavoid.h"
#include "libcola/cola.h"
#include "libtopology/cola_topology_addon.h"
#include "libtopology/topology_graph.h"
#include <cstdio>
#include <cstdlib>
#include <cstdint>
#include <cmath>
#include <vector>
using namespace cola;
static uint64_t r=1; static uint64_t nx(){ r^=r<<13; r^=r>>7; r^=r<<17; return r; }
struct R{double x,y,w,h;};
static bool overlap(const R&a,const R&b,double m){ return a.x-m<b.x+b.w && b.x-m<a.x+a.w && a.y-m<b.y+b.h && b.y-m<a.y+a.h; }
static bool segHitsInterior(double px,double py,double qx,double qy,double x0,double y0,double x1,double y1,double eps){ x0+=eps;y0+=eps;x1-=eps;y1-=eps; double t0=0,t1=1; double dx=qx-px, dy=qy-py; double P[4]={-dx,dx,-dy,dy}, Q[4]={px-x0,x1-px,py-y0,y1-py}; for(int i=0;i<4;i++){ if(P[i]==0){ if(Q[i]<=0) return false; } else { double t=Q[i]/P[i]; if(P[i]<0){ if(t>t0) t0=t; } else { if(t<t1) t1=t; } } } return t0<t1-1e-12; }
struct Check: TestConvergence { std::vector<topology::Node*>* tn; std::vector<topology::Edge*>* te; int bad=0; int stopAt; int calls=0; uint64_t seed;
  Check(int s):TestConvergence(1e-3,100),stopAt(s){}
  void verify(const char*when){ auto&N=*tn; for(size_t i=0;i<N.size();i++) for(size_t j=i+1;j<N.size();j++){ vpsc::Rectangle*a=N[i]->rect,*b=N[j]->rect; double ox=std::min(a->getMaxX(),b->getMaxX())-std::max(a->getMinX(),b->getMinX()), oy=std::min(a->getMaxY(),b->getMaxY())-std::max(a->getMinY(),b->getMinY()); if(ox>1e-3&&oy>1e-3){ printf("seed %llu %s nodes %zu %zu overlap %g x %g\n",(unsigned long long)seed,when,i,j,ox,oy); bad++; } }
    for(auto e:*te){ topology::ConstEdgePoints pts; e->getPath(pts); unsigned s=pts.front()->node->id, t=pts.back()->node->id; for(size_t k=1;k<pts.size();k++){ double px=pts[k-1]->posX(),py=pts[k-1]->posY(),qx=pts[k]->posX(),qy=pts[k]->posY(); for(auto nd:N){ if(nd->id==pts[k-1]->node->id||nd->id==pts[k]->node->id) continue; vpsc::Rectangle*rc=nd->rect; if(segHitsInterior(px,py,qx,qy,rc->getMinX(),rc->getMinY(),rc->getMaxX(),rc->getMaxY(),1e-4)){ printf("seed %llu %s edge %u seg %zu passes through node %u\n",(unsigned long long)seed,when,e->id,k,nd->id); bad++; } } } }
  }
  bool operator()(const double s,std::valarray<double>&X,std::valarray<double>&Y){ calls++; verify("during"); if(calls>=stopAt) return true; return TestConvergence::operator()(s,X,Y);} };
struct Pre: cola::PreIteration { cola::Locks lk; cola::Resizes rz; int calls=0; int lockAt=-1, unlockAt=-1, resizeAt=-1; unsigned node=0,rnode=0; double lx=0,ly=0,rw=0,rh=0; vpsc::Rectangles* rs=nullptr; Pre():cola::PreIteration(lk,rz){} bool operator()(){ calls++; changed=false; if(calls==lockAt){ lk.push_back(cola::Lock(node,lx,ly)); changed=true; } if(calls==unlockAt){ lk.clear(); changed=true; } if(!rz.empty()){ rz.clear(); } if(calls==resizeAt){ vpsc::Rectangle*q=(*rs)[rnode]; rz.push_back(cola::Resize(rnode,q->getMinX(),q->getMinY(),rw,rh)); changed=true; } return true; } };
int main(int argc,char**argv){ uint64_t seed=atoll(argv[1]); int mode=argc>2?atoi(argv[2]):0; r=seed*2654435761u+2468;
  std::vector<R> rr; int n=3+nx()%6; for(int i=0;i<n;i++){ for(int t=0;t<80;t++){ R c{double(nx()%30)*10,double(nx()%25)*10,double(20+(nx()%4)*10),double(20+(nx()%3)*10)}; bool ok=true; for(auto&o:rr) if(overlap(c,o,8)) ok=false; if(ok){ rr.push_back(c); break;} } } n=rr.size(); if(n<3) return 0;
  vpsc::Rectangles rs; for(auto&c:rr) rs.push_back(new vpsc::Rectangle(c.x,c.x+c.w,c.y,c.y+c.h));
  std::vector<Edge> es; for(int i=1;i<n;i++) es.push_back({nx()%i,i}); if(nx()%2){ unsigned a=nx()%n,b=nx()%n; if(a!=b){ bool dup=false; for(auto&e:es) if((e.first==a&&e.second==b)||(e.first==b&&e.second==a)) dup=true; if(!dup) es.push_back({a,b}); } }
  std::vector<topology::Node*> tn; for(int i=0;i<n;i++) tn.push_back(new topology::Node(i,rs[i]));
  std::vector<topology::Edge*> routes;
  { Avoid::Router* router=new Avoid::Router(Avoid::PolyLineRouting); router->setRoutingParameter(Avoid::segmentPenalty,0); std::vector<Avoid::ConnRef*> crs; for(int i=0;i<n;i++){ Avoid::Rectangle sr(Avoid::Point(rr[i].x,rr[i].y),Avoid::Point(rr[i].x+rr[i].w,rr[i].y+rr[i].h)); new Avoid::ShapeRef(router,sr,i+1);} for(size_t i=0;i<es.size();i++){ Avoid::Point a(rs[es[i].first]->getCentreX(),rs[es[i].first]->getCentreY()), b(rs[es[i].second]->getCentreX(),rs[es[i].second]->getCentreY()); crs.push_back(new Avoid::ConnRef(router,Avoid::ConnEnd(a),Avoid::ConnEnd(b),n+1+i)); } router->processTransaction();
    for(size_t i=0;i<es.size();i++){ const Avoid::PolyLine& route=crs[i]->route(); std::vector<topology::EdgePoint*> eps; eps.push_back(new topology::EdgePoint(tn[es[i].first],topology::EdgePoint::CENTRE)); for(size_t j=1;j+1<route.size();j++){ const Avoid::Point&p=route.ps[j]; topology::EdgePoint::RectIntersect ri; switch(p.vn){case 0: ri=topology::EdgePoint::BR; break; case 1: ri=topology::EdgePoint::TR; break; case 2: ri=topology::EdgePoint::TL; break; case 3: ri=topology::EdgePoint::BL; break; default: ri=topology::EdgePoint::CENTRE;} eps.push_back(new topology::EdgePoint(tn[p.id-1],ri)); } eps.push_back(new topology::EdgePoint(tn[es[i].second],topology::EdgePoint::CENTRE)); routes.push_back(new topology::Edge(i,50,eps)); }
    delete router; }
  Check chk(1+nx()%15); chk.tn=&tn; chk.te=&routes; chk.seed=seed;
  Pre pre; pre.rs=&rs; if(mode&1){ pre.lockAt=1+nx()%20; pre.unlockAt=pre.lockAt+2+nx()%30; pre.node=nx()%n; pre.lx=rs[pre.node]->getCentreX()+double(int(nx()%81)-40); pre.ly=rs[pre.node]->getCentreY()+double(int(nx()%81)-40); } if(mode&2){ pre.resizeAt=1+nx()%20; pre.rnode=nx()%n; pre.rw=rs[pre.rnode]->width()+double(int(nx()%5)-1)*10; pre.rh=rs[pre.rnode]->height()+double(int(nx()%5)-1)*10; if(pre.rw<10) pre.rw=10; if(pre.rh<10) pre.rh=10; }
  ConstrainedFDLayout alg(rs,es,40+nx()%40,StandardEdgeLengths,&chk,mode?&pre:nullptr);
  topology::ColaTopologyAddon topo(tn,routes); alg.setTopology(&topo);
  try{ chk.verify("before"); if(chk.bad){ printf("seed %llu initial state invalid (generator)\n",(unsigned long long)seed); return 0; } alg.run(); }
  catch(vpsc::CriticalFailure&f){ printf("seed %llu CriticalFailure %s\n",(unsigned long long)seed,f.what().c_str()); return 1; }
  catch(...){ printf("seed %llu exception\n",(unsigned long long)seed); return 1; }
  topology::ColaTopologyAddon* res=dynamic_cast<topology::ColaTopologyAddon*>(alg.getTopology()); chk.tn=&res->topologyNodes; chk.te=&res->topologyRoutes; chk.verify("after");
  return chk.bad?1:0; }
