#include "libavoid/libavoid.h"
#include <cstdio>
#include <cstdlib>
#include <cstdint>
#include <cmath>
#include <vector>
#include <queue>
#include <map>
using namespace Avoid;
static uint64_t r=1; static uint64_t nx(){ r^=r<<13; r^=r>>7; r^=r<<17; return r; }
struct R{double x,y,w,h;};
struct Pt{double x,y;};
static bool overlap(const R&a,const R&b,double m){ return a.x-m<b.x+b.w && b.x-m<a.x+a.w && a.y-m<b.y+b.h && b.y-m<a.y+a.h; }
// does open segment pq intersect open rectangle interior? Liang-Barsky clip against open rect
static bool segHitsInterior(Pt p,Pt q,const R&o){ double x0=o.x,x1=o.x+o.w,y0=o.y,y1=o.y+o.h; double t0=0,t1=1; double dx=q.x-p.x, dy=q.y-p.y; 
  double P[4]={-dx,dx,-dy,dy}, Q[4]={p.x-x0,x1-p.x,p.y-y0,y1-p.y};
  for(int i=0;i<4;i++){ if(P[i]==0){ if(Q[i]<=0) return false; } else { double t=Q[i]/P[i]; if(P[i]<0){ if(t>t0) t0=t; } else { if(t<t1) t1=t; } } }
  return t0<t1-1e-12; }
static int TAUT=0;
static double D(Pt a,Pt b){ return hypot(a.x-b.x,a.y-b.y); }
int main(int argc,char**argv){ uint64_t seed=atoll(argv[1]); double pen=atof(argv[2]); TAUT=argc>3?atoi(argv[3]):0; r=seed*2654435761u+4242;
  std::vector<R> rs; int n=1+nx()%8; for(int i=0;i<n;i++){ for(int t=0;t<50;t++){ R c{double(nx()%40)*10,double(nx()%30)*10,double(20+(nx()%8)*10),double(20+(nx()%6)*10)}; bool ok=true; for(auto&o:rs) if(overlap(c,o,5)) ok=false; if(ok){ rs.push_back(c); break;} } } n=rs.size();
  Router* router=new Router(PolyLineRouting); router->setRoutingParameter(segmentPenalty,pen);
  for(auto&c:rs){ Rectangle rr(Point(c.x,c.y),Point(c.x+c.w,c.y+c.h)); new ShapeRef(router,rr);} 
  auto freept=[&](){ for(;;){ Pt p{double(nx()%90)*5-15, double(nx()%70)*5-15}; bool ok=true; for(auto&o:rs) if(p.x>=o.x-1&&p.x<=o.x+o.w+1&&p.y>=o.y-1&&p.y<=o.y+o.h+1) ok=false; if(ok) return p; } };
  int m=1+nx()%4; std::vector<std::pair<Pt,Pt>> ends; std::vector<ConnRef*> cs; for(int i=0;i<m;i++){ Pt a=freept(),b=freept(); if(a.x==b.x&&a.y==b.y){ b.x+=5; } ends.push_back({a,b}); cs.push_back(new ConnRef(router,ConnEnd(Point(a.x,a.y)),ConnEnd(Point(b.x,b.y)))); }
  router->processTransaction(); int bad=0;
  for(int ci=0;ci<m;ci++){
    std::vector<Pt> nodes; nodes.push_back(ends[ci].first); nodes.push_back(ends[ci].second); for(auto&o:rs){ nodes.push_back({o.x,o.y}); nodes.push_back({o.x+o.w,o.y}); nodes.push_back({o.x+o.w,o.y+o.h}); nodes.push_back({o.x,o.y+o.h}); }
    int N=nodes.size(); auto wedge=[&](int u,Pt p)->int{ int k=(u-2)%4; double sx=(k==0||k==3)?1:-1, sy=(k==0||k==1)?1:-1; double ax=(p.x-nodes[u].x)*sx, ay=(p.y-nodes[u].y)*sy; if(ax>0&&ay>0) return -1; if(ax<0&&ay<0) return -2; if(ax<=0&&ay>=0) return 1; return 2; }; std::vector<std::vector<char>> vis(N,std::vector<char>(N,0)); for(int i=0;i<N;i++) for(int j=i+1;j<N;j++){ bool ok=true; for(auto&o:rs) if(segHitsInterior(nodes[i],nodes[j],o)){ ok=false; break;} if(TAUT&&ok){ if(i>=2 && wedge(i,nodes[j])<0) ok=false; if(j>=2 && wedge(j,nodes[i])<0) ok=false; } vis[i][j]=vis[j][i]=ok; }
    // validity of impl route
    const PolyLine& rt=cs[ci]->displayRoute(); double len=0; int bends=(int)rt.size()-2; for(size_t i=1;i<rt.size();i++){ Pt a{rt.ps[i-1].x,rt.ps[i-1].y}, b{rt.ps[i].x,rt.ps[i].y}; len+=D(a,b); for(auto&o:rs) if(segHitsInterior(a,b,o)){ printf("seed %llu conn %d route crosses obstacle\n",(unsigned long long)seed,ci); bad++; } }
    if(rt.size()<2 || rt.ps[0].x!=ends[ci].first.x||rt.ps[0].y!=ends[ci].first.y||rt.ps[rt.size()-1].x!=ends[ci].second.x||rt.ps[rt.size()-1].y!=ends[ci].second.y){ printf("seed %llu conn %d endpoints wrong\n",(unsigned long long)seed,ci); bad++; }
    // Dijkstra over (node,prev) with bend penalty: state = (node, prevnode); cost adds pen when direction changes (non-collinear)
    typedef std::pair<double,std::pair<int,int>> QE; std::priority_queue<QE,std::vector<QE>,std::greater<QE>> pq; std::map<std::pair<int,int>,double> dist; std::map<std::pair<int,int>,std::pair<int,int>> par; std::pair<int,int> fin; pq.push({0,{0,-1}}); dist[{0,-1}]=0; double best=-1;
    while(!pq.empty()){ auto [d,st]=pq.top(); pq.pop(); if(dist[st]<d-1e-12) continue; int u=st.first,pv=st.second; if(u==1){ best=d; fin=st; break;} for(int v=0;v<N;v++){ if(v==u||v==pv||!vis[u][v]) continue; double c=D(nodes[u],nodes[v]); if(c==0) continue; if(pv>=0){ double cr=(nodes[u].x-nodes[pv].x)*(nodes[v].y-nodes[u].y)-(nodes[u].y-nodes[pv].y)*(nodes[v].x-nodes[u].x); double dt=(nodes[u].x-nodes[pv].x)*(nodes[v].x-nodes[u].x)+(nodes[u].y-nodes[pv].y)*(nodes[v].y-nodes[u].y); if(!(cr==0&&dt>0)){ c+=pen; if(TAUT&&u>=2){ int wa=wedge(u,nodes[pv]), wb=wedge(u,nodes[v]); if(wa==wb) continue; int k=(u-2)%4; double sx=(k==0||k==3)?1:-1, sy=(k==0||k==1)?1:-1; double ix=nodes[u].x-nodes[pv].x, iy=nodes[u].y-nodes[pv].y; double cd=ix*sy-iy*sx; if((cr>0)!=(cd>0)) continue; } } } auto ns=std::make_pair(v,u); auto it=dist.find(ns); if(it==dist.end()||it->second>d+c+1e-12){ dist[ns]=d+c; par[ns]=st; pq.push({d+c,ns}); } } }
    double implcost=len+pen*bends; if(best<0){ printf("seed %llu conn %d oracle found no path\n",(unsigned long long)seed,ci); }
    else if(fabs(implcost-best)>1e-6){ printf("seed %llu conn %d impl cost %.9f (len %.9f bends %d) oracle %.9f\n",(unsigned long long)seed,ci,implcost,len,bends,best); bad++; printf(" impl:"); for(auto&q:rt.ps) printf(" (%g,%g)",q.x,q.y); printf("\n oracle:"); auto cur=fin; while(true){ printf(" (%g,%g)",nodes[cur.first].x,nodes[cur.first].y); if(cur.second<0) break; cur=par[cur]; } printf("\n"); for(auto&o:rs) printf("  rect %g %g %g %g\n",o.x,o.y,o.x+o.w,o.y+o.h); }
  }
  delete router; return bad?1:0; }
