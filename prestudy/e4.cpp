#include <cstddef>
#include <cstring>
#include "libvpsc/solve_VPSC.h"
#include "libvpsc/variable.h"
#include "libvpsc/constraint.h"
#include "libvpsc/exceptions.h"
#include <cstdio>
#include <cstdlib>
#include <cstdint>
#include <cmath>
#include <vector>
#include <string>
using namespace vpsc;
static uint64_t r=1; static uint64_t nx(){ r^=r<<13; r^=r>>7; r^=r<<17; return r; }
struct C{int l,r; double g; bool eq;};
struct P{ std::vector<double> d,w,s; std::vector<C> cs; };
// feasibility for inequality-only, scale 1: no positive cycle (longest path Bellman-Ford)
static bool feasible(const P&p){ int n=p.d.size(); std::vector<double> dist(n,0); for(int it=0;it<=n;it++){ bool ch=false; for(auto&c:p.cs){ if(dist[c.l]+c.g>dist[c.r]+1e-12){ dist[c.r]=dist[c.l]+c.g; ch=true;} if(c.eq && dist[c.r]-c.g>dist[c.l]+1e-12){ dist[c.l]=dist[c.r]-c.g; ch=true;} } if(!ch) return true; } return false; }
// Hildreth oracle
static bool hildreth(const P&p,std::vector<double>&x,const std::vector<bool>&skip){ int n=p.d.size(), m=p.cs.size(); std::vector<double> lam(m,0); x=p.d; 
  for(int it=0;it<200000;it++){ double maxch=0; for(int k=0;k<m;k++){ if(skip[k]) continue; const C&c=p.cs[k]; double sl=p.s[c.l], sr=p.s[c.r]; double viol=sl*x[c.l]+c.g-sr*x[c.r]; double q=(sl*sl/p.w[c.l]+sr*sr/p.w[c.r])/2; double nl=lam[k]+viol/q; if(!c.eq && nl<0) nl=0; double dl=nl-lam[k]; if(dl!=0){ lam[k]=nl; x[c.l]-=dl*sl/(2*p.w[c.l]); x[c.r]+=dl*sr/(2*p.w[c.r]); if(fabs(dl)>maxch) maxch=fabs(dl);} } if(maxch<1e-13) return true; } return false; }
static double cost(const P&p,const std::vector<double>&x){ double c=0; for(size_t i=0;i<x.size();i++) c+=p.w[i]*(x[i]-p.d[i])*(x[i]-p.d[i]); return c; }
int main(int argc,char**argv){ uint64_t seed=atoll(argv[1]); int mode=atoi(argv[2]); // mode bit0: allow cycles, bit1: equalities, bit2: scales
  r=seed*2654435761u+12345; P p; int n=2+nx()%7; int m=nx()%(2*n); 
  for(int i=0;i<n;i++){ p.d.push_back(double(nx()%21)-10); double ws[]={1,1,1,2,10,0.5}; p.w.push_back(ws[nx()%6]); double ss[]={1,1,2,0.5,3}; p.s.push_back((mode&4)?ss[nx()%5]:1); }
  for(int k=0;k<m;k++){ int a=nx()%n,b=nx()%n; if(a==b) continue; if(!(mode&1) && a>b) std::swap(a,b); C c{a,b,double(int(nx()%9)-2),(mode&2)&&(nx()%5==0)}; p.cs.push_back(c);} m=p.cs.size();
  bool ineqOnly=true; for(auto&c:p.cs) if(c.eq) ineqOnly=false;
  int bad=0;
  for(int inc=0;inc<2;inc++){
    Variables vs; Constraints cs; for(int i=0;i<n;i++) vs.push_back(new Variable(i,p.d[i],p.w[i],p.s[i])); for(auto&c:p.cs) cs.push_back(new Constraint(vs[c.l],vs[c.r],c.g,c.eq));
    bool threw=false; std::string what;
    try{ if(inc){ IncSolver s(vs,cs); s.solve(); } else { Solver s(vs,cs); s.solve(); } }
    catch(UnsatisfiedConstraint&e){ threw=true; what="UnsatisfiedConstraint"; }
    catch(char*){ threw=true; what="char*"; }
    catch(vpsc::CriticalFailure&f){ threw=true; what="CriticalFailure "+f.what(); }
    catch(...){ threw=true; what="other"; }
    bool anyflag=false; std::vector<bool> skip(m,false); for(int k=0;k<m;k++) if(cs[k]->unsatisfiable){ anyflag=true; skip[k]=true; }
    bool feas = (mode&4)? true : feasible(p);
    if(threw){ if(!(inc==0 && !feas)) { printf("seed %llu inc=%d threw %s feas=%d\n",(unsigned long long)seed,inc,what.c_str(),feas); bad++; } }
    else {
      for(int k=0;k<m;k++){ if(skip[k]) continue; const C&c=p.cs[k]; double lhs=p.s[c.l]*vs[c.l]->finalPosition+c.g, rhs=p.s[c.r]*vs[c.r]->finalPosition; if(lhs>rhs+1e-6 || (c.eq&&fabs(lhs-rhs)>1e-6)){ printf("seed %llu inc=%d constraint %d violated: %g > %g eq=%d\n",(unsigned long long)seed,inc,k,lhs,rhs,c.eq); bad++; } }
      for(int i=0;i<n;i++) if(!std::isfinite(vs[i]->finalPosition)){ printf("seed %llu nonfinite\n",(unsigned long long)seed); bad++; }
      if(ineqOnly && !(mode&4)){ if(anyflag && feas){ printf("seed %llu inc=%d flagged but feasible\n",(unsigned long long)seed,inc); bad++; } if(!anyflag && !feas){ printf("seed %llu inc=%d infeasible but none flagged (no throw)\n",(unsigned long long)seed,inc); bad++; } }
      if(!anyflag){ std::vector<double> x; if(hildreth(p,x,skip)){ double sc=1; for(int i=0;i<n;i++) sc=std::max(sc,fabs(p.d[i])); double md=0; for(int i=0;i<n;i++) md=std::max(md,fabs(x[i]-vs[i]->finalPosition)); std::vector<double> y; for(int i=0;i<n;i++) y.push_back(vs[i]->finalPosition); if(md>1e-5*sc*10){ printf("seed %llu inc=%d optimum differs by %g (cost impl %.9g oracle %.9g)\n",(unsigned long long)seed,inc,md,cost(p,y),cost(p,x)); bad++; } } }
    }
    for(auto v:vs) delete v; for(auto c:cs) delete c;
  }
  return bad?1:0; }
