#include "libdialect/commontypes.h"
#include "libdialect/io.h"
#include "libdialect/util.h"
#include "libdialect/graphs.h"
#include "libdialect/opts.h"
#include "libdialect/hola.h"
#include <cstdio>
#include <cstdlib>
#include <cstdint>
#include <cmath>
#include <chrono>
#include <sstream>
using namespace dialect;
static uint64_t r=1; static uint64_t nx(){ r^=r<<13; r^=r>>7; r^=r<<17; return r; }
int main(int argc,char**argv){ uint64_t seed=atoll(argv[1]); r=seed*2654435761u+1357;
  int n=atoi(argv[2])+nx()%atoi(argv[3]); std::ostringstream t; std::vector<std::pair<double,double>> dims;
  for(int i=0;i<n;i++){ double w=20+(nx()%4)*10,h=20+(nx()%3)*10; dims.push_back({w,h}); t<<i<<" "<<double(nx()%400)<<" "<<double(nx()%400)<<" "<<w<<" "<<h<<"\n"; }
  t<<"#\n"; std::vector<std::pair<int,int>> es; for(int i=1;i<n;i++){ int j=nx()%i; es.push_back({j,i}); } int extra=nx()%(n*atoi(argv[4])/4+1); for(int k=0;k<extra;k++){ int a=nx()%n,b=nx()%n; if(a==b) continue; bool dup=false; for(auto&e:es) if((e.first==a&&e.second==b)||(e.first==b&&e.second==a)) dup=true; if(!dup) es.push_back({a,b}); }
  for(auto&e:es) t<<e.first<<" "<<e.second<<"\n"; std::string s=t.str();
  Graph_SP g=buildGraphFromTglf(s); HolaOpts opts; if(nx()%2) opts.useACAforLinks=!opts.useACAforLinks; 
  auto t1=std::chrono::high_resolution_clock::now(); int bad=0; double PAD=opts.nodePaddingScalar*g->getIEL()+1e-6;
  try{ doHOLA(*g,opts); } catch(std::exception&e){ printf("seed %llu exception %s\n",(unsigned long long)seed,e.what()); return 1; } catch(vpsc::CriticalFailure&f){ printf("seed %llu CriticalFailure %s\n",(unsigned long long)seed,f.what().c_str()); return 1; } catch(...){ printf("seed %llu unknown exception\n",(unsigned long long)seed); return 1; }
  auto t2=std::chrono::high_resolution_clock::now(); double ms=std::chrono::duration_cast<std::chrono::microseconds>(t2-t1).count()/1000.0;
  if((int)g->getNumNodes()!=n){ printf("seed %llu node count %zu != %d\n",(unsigned long long)seed,(size_t)g->getNumNodes(),n); bad++; }
  if(g->getNumEdges()!=es.size()){ printf("seed %llu edge count changed\n",(unsigned long long)seed); bad++; }
  std::vector<Node_SP> nodes; for(auto&p:g->getNodeLookup()) nodes.push_back(p.second);
  for(auto&u:nodes){ unsigned ext=u->getExternalId(); auto d=u->getDimensions(); if(fabs(d.first-dims[ext].first)>1e-9||fabs(d.second-dims[ext].second)>1e-9){ printf("seed %llu node %u size changed %g x %g vs %g x %g\n",(unsigned long long)seed,ext,d.first,d.second,dims[ext].first,dims[ext].second); bad++; } }
  for(size_t i=0;i<nodes.size();i++) for(size_t j=i+1;j<nodes.size();j++){ auto a=nodes[i]->getBoundingBox(), b=nodes[j]->getBoundingBox(); double ox=std::min(a.X,b.X)-std::max(a.x,b.x), oy=std::min(a.Y,b.Y)-std::max(a.y,b.y); if(ox>1e-3&&oy>1e-3){ printf("seed %llu nodes overlap %g x %g\n",(unsigned long long)seed,ox,oy); bad++; } }
  for(auto&p:g->getEdgeLookup()){ Edge_SP e=p.second; std::vector<Avoid::Point> rt=e->getRoute(); if(rt.size()<2){ printf("seed %llu edge has no route (%zu pts)\n",(unsigned long long)seed,rt.size()); bad++; continue; } for(size_t k=1;k<rt.size();k++){ if(fabs(rt[k].x-rt[k-1].x)>1e-6&&fabs(rt[k].y-rt[k-1].y)>1e-6){ printf("seed %llu diagonal segment\n",(unsigned long long)seed); bad++; } double mx0=std::min(rt[k].x,rt[k-1].x),mx1=std::max(rt[k].x,rt[k-1].x),my0=std::min(rt[k].y,rt[k-1].y),my1=std::max(rt[k].y,rt[k-1].y); for(auto&u:nodes){ if(u->id()==e->getSourceEnd()->id()||u->id()==e->getTargetEnd()->id()) continue; auto b=u->getBoundingBox(); double ox=std::min(mx1,b.X)-std::max(mx0,b.x), oy=std::min(my1,b.Y)-std::max(my0,b.y); if(ox>-1e-9&&oy>-1e-9&&(ox>1e-3||oy>1e-3)&&!(ox<1e-3&&0)){ if((mx1-mx0<1e-9? (mx0>b.x+1e-3&&mx0<b.X-1e-3&&oy>1e-3) : (my0>b.y+1e-3&&my0<b.Y-1e-3&&ox>1e-3))){ printf("seed %llu edge passes through node\n",(unsigned long long)seed); bad++; } } } }
    auto sb=e->getSourceEnd()->getBoundingBox(), tb=e->getTargetEnd()->getBoundingBox(); auto in=[&](Avoid::Point p,BoundingBox b,double pad){ return p.x>=b.x-pad&&p.x<=b.X+pad&&p.y>=b.y-pad&&p.y<=b.Y+pad; }; if(!((in(rt.front(),sb,PAD)&&in(rt.back(),tb,PAD))||(in(rt.front(),tb,PAD)&&in(rt.back(),sb,PAD)))){ printf("seed %llu route ends not at end nodes\n",(unsigned long long)seed); bad++; } }
  printf("seed %llu n=%d m=%zu ms=%.1f bad=%d\n",(unsigned long long)seed,n,es.size(),ms,bad);
  return bad?1:0; }
