#include "libavoid/libavoid.h"
#include <cstdio>
#include <cstdlib>
#include <cstdint>
#include <functional>
extern "C" void simalloc_seed(uint64_t);
using namespace Avoid;
static uint64_t r=1; static uint64_t nx(){ r^=r<<13; r^=r>>7; r^=r<<17; return r; }
int main(int argc,char**argv){
  uint64_t scene=atoll(argv[1]); uint64_t aseed=atoll(argv[2]); int ortho=atoi(argv[3]);
  simalloc_seed(aseed); r=scene*2654435761u+77;
  Router* router=new Router(ortho?OrthogonalRouting:PolyLineRouting);
  router->setRoutingParameter(segmentPenalty, ortho?50:0);
  router->setRoutingParameter(idealNudgingDistance, 5);
  std::vector<ShapeRef*> shapes; 
  int n=4+nx()%5; 
  for(int i=0;i<n;i++){ int gx=i%3, gy=i/3; double x=gx*120+ (nx()%3)*10, y=gy*100+(nx()%3)*10; double w=40+(nx()%3)*20, h=30+(nx()%2)*20;
    Rectangle rect(Point(x,y),Point(x+w,y+h)); ShapeRef* s=new ShapeRef(router,rect); shapes.push_back(s);
    new ShapeConnectionPin(s,1,ATTACH_POS_CENTRE,ATTACH_POS_CENTRE,true,0,ConnDirNone);
    new ShapeConnectionPin(s,2,ATTACH_POS_LEFT,ATTACH_POS_CENTRE,true,0,ConnDirLeft);
    new ShapeConnectionPin(s,2,ATTACH_POS_RIGHT,ATTACH_POS_CENTRE,true,0,ConnDirRight);
    new ShapeConnectionPin(s,2,ATTACH_POS_CENTRE,ATTACH_POS_TOP,true,0,ConnDirUp);
    new ShapeConnectionPin(s,2,ATTACH_POS_CENTRE,ATTACH_POS_BOTTOM,true,0,ConnDirDown);
  }
  std::vector<ConnRef*> conns; int m=3+nx()%6;
  for(int i=0;i<m;i++){ int a=nx()%n,b=nx()%n; if(a==b) b=(a+1)%n; int cls=1+nx()%2; ConnRef* c=new ConnRef(router,ConnEnd(shapes[a],cls),ConnEnd(shapes[b],cls)); conns.push_back(c);} 
  router->processTransaction();
  // a move
  router->moveShape(shapes[0], 15, 5); router->processTransaction();
  uint64_t h=1469598103934665603ULL; 
  for(auto c:conns){ const PolyLine& p=c->displayRoute(); for(auto&pt:p.ps){ uint64_t a,b; memcpy(&a,&pt.x,8); memcpy(&b,&pt.y,8); h=(h^a)*1099511628211ULL; h=(h^b)*1099511628211ULL; } h=(h^0xff)*1099511628211ULL; }
  printf("%016llx\n",(unsigned long long)h);
  delete router; return 0; }
