#include "libavoid/libavoid.h"
#include <cstdio>
#include <cstdlib>
#include <cstdint>
#include <cmath>
#include <vector>
using namespace Avoid;
static uint64_t r=1; static uint64_t nx(){ r^=r<<13; r^=r>>7; r^=r<<17; return r; }
struct R{double x,y,w,h; bool alive;};
static bool overlap(const R&a,const R&b,double m){ return a.x-m<b.x+b.w && b.x-m<a.x+a.w && a.y-m<b.y+b.h && b.y-m<a.y+a.h; }

static Polygon mkpoly(const R&c,uint64_t shapeSeed){ uint64_t q=shapeSeed*6364136223846793005ULL+1442695040888963407ULL; auto nn=[&](){ q^=q<<13; q^=q>>7; q^=q<<17; return q; }; int kind=nn()%4; Polygon p; if(kind==0){ p=Polygon(4); p.ps[0]=Point(c.x,c.y); p.ps[1]=Point(c.x+c.w,c.y); p.ps[2]=Point(c.x+c.w,c.y+c.h); p.ps[3]=Point(c.x,c.y+c.h); return p; }
  // points on sides: bottom(y=c.y) left->right, right side up, top right->left, left side down; one point per side at multiples of 5
  double a=c.x+5*(nn()%int(c.w/5+1)), b=c.y+5*(nn()%int(c.h/5+1)), d=c.x+5*(nn()%int(c.w/5+1)), e=c.y+5*(nn()%int(c.h/5+1));
  std::vector<Point> v; v.push_back(Point(a,c.y)); v.push_back(Point(c.x+c.w,b)); v.push_back(Point(d,c.y+c.h)); if(kind>=2) v.push_back(Point(c.x,e));
  // remove duplicates / degenerate
  std::vector<Point> u; for(auto&pt:v){ bool dup=false; for(auto&z:u) if(z.x==pt.x&&z.y==pt.y) dup=true; if(!dup) u.push_back(pt);} if(u.size()<3){ p=Polygon(4); p.ps[0]=Point(c.x,c.y); p.ps[1]=Point(c.x+c.w,c.y); p.ps[2]=Point(c.x+c.w,c.y+c.h); p.ps[3]=Point(c.x,c.y+c.h); return p; }
  // check strictly convex & non-collinear (area>0), orientation consistent
  double area=0; for(size_t i=0;i<u.size();i++){ Point&A=u[i],&B=u[(i+1)%u.size()]; area+=A.x*B.y-B.x*A.y; } bool ok=fabs(area)>50; for(size_t i=0;i<u.size()&&ok;i++){ Point&A=u[i],&B=u[(i+1)%u.size()],&C=u[(i+2)%u.size()]; double cr=(B.x-A.x)*(C.y-B.y)-(B.y-A.y)*(C.x-B.x); if(cr*area<=0) ok=false; }
  if(!ok){ p=Polygon(4); p.ps[0]=Point(c.x,c.y); p.ps[1]=Point(c.x+c.w,c.y); p.ps[2]=Point(c.x+c.w,c.y+c.h); p.ps[3]=Point(c.x,c.y+c.h); return p; }
  p=Polygon(u.size()); for(size_t i=0;i<u.size();i++) p.ps[i]=u[i]; return p; }
static double len(const PolyLine&p){ double l=0; for(size_t i=1;i<p.size();i++) l+=hypot(p.ps[i].x-p.ps[i-1].x,p.ps[i].y-p.ps[i-1].y); return l; }
int main(int argc,char**argv){
  uint64_t scene=atoll(argv[1]); int ortho=atoi(argv[2]); int verbose=argc>3;
  r=scene*2654435761u+77;
  unsigned flag=ortho?OrthogonalRouting:PolyLineRouting;
  Router* router=new Router(flag);
  router->setRoutingParameter(segmentPenalty, ortho?50:0);
  router->setRoutingOption(nudgeOrthogonalSegmentsConnectedToShapes,false);
  if(ortho) router->setRoutingParameter(idealNudgingDistance,0);
  std::vector<R> rs; std::vector<ShapeRef*> shapes;
  int n=3+nx()%6;
  for(int i=0;i<n;i++){ for(int t=0;t<50;t++){ R c{double(nx()%40)*10,double(nx()%30)*10,double(20+(nx()%6)*10),double(20+(nx()%5)*10),true}; bool ok=true; for(auto&o:rs) if(overlap(c,o,4)) ok=false; if(ok){ rs.push_back(c); break;} } }
  n=rs.size();
  for(auto&c:rs){ Polygon rr=mkpoly(R{0,0,c.w,c.h,true},scene*100+shapes.size()); rr.translate(c.x,c.y); shapes.push_back(new ShapeRef(router,rr)); }
  struct C{Point a,b; ConnRef* c;}; std::vector<C> cs; int m=2+nx()%5;
  auto freept=[&](){ for(;;){ Point p(double(nx()%45)*10-15, double(nx()%35)*10-15); bool ok=true; for(auto&o:rs) if(o.alive && p.x>=o.x-1&&p.x<=o.x+o.w+1&&p.y>=o.y-1&&p.y<=o.y+o.h+1) ok=false; if(ok) return p; } };
  for(int i=0;i<m;i++){ C c; c.a=freept(); c.b=freept(); c.c=new ConnRef(router,ConnEnd(c.a),ConnEnd(c.b)); cs.push_back(c);} 
  router->processTransaction();
  int steps=3+nx()%6; int bad=0;
  for(int st=0;st<steps;st++){
    int nops=1+nx()%2;
    for(int k=0;k<nops;k++){
      int i=nx()%n; if(!rs[i].alive) continue; int op=nx()%10;
      if(op<7){ double dx=double(int(nx()%21)-10)*5, dy=double(int(nx()%21)-10)*5; R c=rs[i]; c.x+=dx; c.y+=dy; bool ok=true; for(int j=0;j<n;j++) if(j!=i&&rs[j].alive&&overlap(c,rs[j],4)) ok=false; for(auto&cc:cs){ for(Point p:{cc.a,cc.b}) if(p.x>=c.x-1&&p.x<=c.x+c.w+1&&p.y>=c.y-1&&p.y<=c.y+c.h+1) ok=false; } if(!ok) continue; rs[i]=c; router->moveShape(shapes[i],dx,dy); if(verbose) printf("move %d by %g %g\n",i,dx,dy); }
      else { rs[i].alive=false; router->deleteShape(shapes[i]); shapes[i]=nullptr; if(verbose) printf("del %d\n",i);} 
    }
    router->processTransaction();
    // fresh
    Router* f=new Router(flag); f->setRoutingParameter(segmentPenalty, ortho?50:0); if(ortho) f->setRoutingParameter(idealNudgingDistance,0);
    for(auto&c:rs) if(c.alive){ size_t idx=&c-&rs[0]; Polygon rr=mkpoly(R{0,0,c.w,c.h,true},scene*100+idx); rr.translate(c.x,c.y); new ShapeRef(f,rr);}
    std::vector<ConnRef*> fc; for(auto&c:cs) fc.push_back(new ConnRef(f,ConnEnd(c.a),ConnEnd(c.b)));
    f->processTransaction();
    for(size_t i=0;i<cs.size();i++){ double a=len(cs[i].c->displayRoute()), b=len(fc[i]->displayRoute()); if(fabs(a-b)>1e-6){ bad++; printf("scene %llu step %d conn %zu inc=%.6f fresh=%.6f\n",(unsigned long long)scene,st,i,a,b); printf(" inc:"); for(auto&q:cs[i].c->displayRoute().ps) printf(" (%g,%g)",q.x,q.y); printf("\n fresh:"); for(auto&q:fc[i]->displayRoute().ps) printf(" (%g,%g)",q.x,q.y); printf("\n"); for(size_t k=0;k<rs.size();k++) if(rs[k].alive){ Polygon pp=mkpoly(R{0,0,rs[k].w,rs[k].h,true},scene*100+k); pp.translate(rs[k].x,rs[k].y); printf("  poly %zu:",k); for(auto&q:pp.ps) printf(" (%g,%g)",q.x,q.y); printf("\n"); } } }
    delete f;
  }
  delete router; return bad?1:0; }
