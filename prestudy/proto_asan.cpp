// feasibility prototype: baton-scheduled task threads, fork per run, sim allocator, event hash
#include "libavoid/libavoid.h"
#include "libcola/cola.h"
#include <thread>
#include <mutex>
#include <condition_variable>
#include <vector>
#include <cstdio>
#include <cstdlib>
#include <cstring>
#include <unistd.h>
#include <sys/wait.h>
extern "C" int __lsan_do_recoverable_leak_check(void);
static void simalloc_seed(uint64_t){}
struct Rng{ uint64_t s; uint64_t next(){ s^=s<<13; s^=s>>7; s^=s<<17; return s; } };
static Rng sched; static std::mutex mu; static std::condition_variable cv; static int current=-1; static std::vector<int> state; // 0 runnable,1 done
static uint64_t evh=1469598103934665603ULL; static int switches=0;
static void ev(uint64_t x){ evh=(evh^x)*1099511628211ULL; }
static void pick(std::unique_lock<std::mutex>&lk){ std::vector<int> r; for(size_t i=0;i<state.size();i++) if(state[i]==0) r.push_back(i); if(r.empty()){ current=-2; cv.notify_all(); return; } int nxt=r[sched.next()%r.size()]; if(nxt!=current) switches++; current=nxt; ev(0x1000+nxt); cv.notify_all(); }
static void yield(int me){ std::unique_lock<std::mutex> lk(mu); pick(lk); cv.wait(lk,[&]{return current==me;}); }
static void start(int me){ std::unique_lock<std::mutex> lk(mu); cv.wait(lk,[&]{return current==me;}); }
static void finish(int me){ std::unique_lock<std::mutex> lk(mu); state[me]=1; pick(lk); }
struct MyRouter: Avoid::Router { int me; int calls=0; MyRouter(unsigned f,int me):Avoid::Router(f),me(me){} bool shouldContinueTransactionWithProgress(unsigned el,unsigned ph,unsigned tot,double prop){ calls++; ev(0x2000+ph); if(ph!=Avoid::TransactionPhaseCompleted) yield(me); return true; } };
struct Conv: cola::TestConvergence { int me; Conv(int me):cola::TestConvergence(1e-4,30),me(me){} bool operator()(const double s,std::valarray<double>&X,std::valarray<double>&Y){ uint64_t a; memcpy(&a,&s,8); ev(a); yield(me); return cola::TestConvergence::operator()(s,X,Y);} };
static void routerTask(int me,uint64_t seed){ start(me); Rng r{seed*77+me}; MyRouter* router=new MyRouter(Avoid::OrthogonalRouting,me); router->setRoutingParameter(Avoid::crossingPenalty,200); std::vector<Avoid::ShapeRef*> sh; for(int i=0;i<5;i++){ double x=(i%3)*120+(r.next()%3)*10,y=(i/3)*100+(r.next()%3)*10; Avoid::Rectangle rr(Avoid::Point(x,y),Avoid::Point(x+50,y+40)); sh.push_back(new Avoid::ShapeRef(router,rr)); } std::vector<Avoid::ConnRef*> cs; for(int i=0;i<5;i++){ cs.push_back(new Avoid::ConnRef(router,Avoid::ConnEnd(Avoid::Point(double(r.next()%400),double(300+r.next()%50))),Avoid::ConnEnd(Avoid::Point(double(r.next()%400),double(-60+int(r.next()%40)))))); }
  for(int st=0;st<3;st++){ router->processTransaction(); for(auto c:cs) for(auto&p:c->displayRoute().ps){ uint64_t a; memcpy(&a,&p.x,8); ev(a); memcpy(&a,&p.y,8); ev(a);} yield(me); router->moveShape(sh[r.next()%5],double(r.next()%20),double(r.next()%20)); }
  delete router; finish(me); }
static void layoutTask(int me,uint64_t seed){ start(me); Rng r{seed*131+me}; vpsc::Rectangles rs; int n=6; for(int i=0;i<n;i++){ double x=double(r.next()%200),y=double(r.next()%200); rs.push_back(new vpsc::Rectangle(x,x+20,y,y+20)); } std::vector<cola::Edge> es; for(int i=1;i<n;i++) es.push_back({r.next()%i,i}); Conv conv(me); cola::ConstrainedFDLayout alg(rs,es,50,cola::StandardEdgeLengths,&conv); alg.setAvoidNodeOverlaps(true); alg.makeFeasible(); alg.run(); for(auto q:rs){ double v=q->getCentreX(); uint64_t a; memcpy(&a,&v,8); ev(a); delete q; } finish(me); }
static uint64_t runOnce(uint64_t seed){ simalloc_seed(seed); sched.s=seed*0x9E3779B97F4A7C15ULL+3; state.assign(3,0); std::thread t0(routerTask,0,seed), t1(layoutTask,1,seed), t2(routerTask,2,seed+5); { std::unique_lock<std::mutex> lk(mu); pick(lk);} t0.join(); t1.join(); t2.join(); return evh; }
int main(int argc,char**argv){ int N=atoi(argv[1]); int mism=0; for(int s=1;s<=N;s++){ uint64_t h[2]; for(int k=0;k<2;k++){ int fd[2]; pipe(fd); pid_t p=fork(); if(p==0){ close(fd[0]); uint64_t v=runOnce(s); if(getenv("LEAK")){ static int* volatile sinkp; sinkp=new int[17]; sinkp[0]=1; sinkp=nullptr; } int leaks=__lsan_do_recoverable_leak_check(); uint64_t out[2]={v,(uint64_t)leaks}; write(fd[1],out,16); _exit(0);} close(fd[1]); uint64_t in[2]={0,0}; read(fd[0],in,16); close(fd[0]); int st; waitpid(p,&st,0); h[k]=in[0]; if(k==0&&s<=3) printf("seed %d hash %016llx leaks %llu status %d\n",s,(unsigned long long)in[0],(unsigned long long)in[1],st); } if(h[0]!=h[1]) mism++; } printf("runs %d mismatches %d\n",N,mism); return 0; }
