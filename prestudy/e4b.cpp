#include <cstddef>
#include <cstring>
#include "libvpsc/solve_VPSC.h"
#include "libvpsc/variable.h"
#include "libvpsc/constraint.h"
#include "libvpsc/exceptions.h"
#include <cstdio>
#include <cstdlib>
#include <cstdint>
#include <cmath>
#include <vector>
#include <string>
using namespace vpsc;
static uint64_t r=1; static uint64_t nx(){ r^=r<<13; r^=r>>7; r^=r<<17; return r; }
struct C{int l,r; double g; bool eq;};
struct P{ std::vector<double> d,w,s; std::vector<C> cs; };
static bool feasible(const P&p){ int n=p.d.size(); std::vector<double> dist(n,0); for(int it=0;it<=n+1;it++){ bool ch=false; for(auto&c:p.cs){ if(dist[c.l]+c.g>dist[c.r]+1e-12){ dist[c.r]=dist[c.l]+c.g; ch=true;} if(c.eq && dist[c.r]-c.g>dist[c.l]+1e-12){ dist[c.l]=dist[c.r]-c.g; ch=true;} } if(!ch) return true; } return false; }
static bool hildreth(const P&p,std::vector<double>&x,const std::vector<bool>&skip){ int n=p.d.size(), m=p.cs.size(); std::vector<double> lam(m,0); x=p.d; 
  for(int it=0;it<400000;it++){ double maxch=0; for(int k=0;k<m;k++){ if(skip[k]) continue; const C&c=p.cs[k]; double sl=p.s[c.l], sr=p.s[c.r]; double viol=sl*x[c.l]+c.g-sr*x[c.r]; double q=(sl*sl/p.w[c.l]+sr*sr/p.w[c.r])/2; double nl=lam[k]+viol/q; if(!c.eq && nl<0) nl=0; double dl=nl-lam[k]; if(dl!=0){ lam[k]=nl; x[c.l]-=dl*sl/(2*p.w[c.l]); x[c.r]+=dl*sr/(2*p.w[c.r]); if(fabs(dl)>maxch) maxch=fabs(dl);} } if(maxch<1e-13) return true; } return false; }
int main(int argc,char**argv){ uint64_t seed=atoll(argv[1]); int mode=atoi(argv[2]);
  r=seed*2654435761u+999; P p; int n=2+nx()%7; int m=nx()%(n+2);
  for(int i=0;i<n;i++){ p.d.push_back(double(nx()%21)-10); double ws[]={1,1,1,2,10,0.5}; p.w.push_back(ws[nx()%6]); double ss[]={1,1,2,0.5,3}; p.s.push_back((mode&4)?ss[nx()%5]:1); }
  auto gen=[&](){ for(;;){ int a=nx()%n,b=nx()%n; if(a==b) continue; if(!(mode&1) && a>b) std::swap(a,b); return C{a,b,double(int(nx()%9)-2),(mode&2)&&(nx()%6==0)}; } };
  for(int k=0;k<m;k++) p.cs.push_back(gen());
  Variables vs; Constraints cs; for(int i=0;i<n;i++) vs.push_back(new Variable(i,p.d[i],p.w[i],p.s[i])); for(auto&c:p.cs) cs.push_back(new Constraint(vs[c.l],vs[c.r],c.g,c.eq));
  Constraints all=cs; int bad=0; bool ineqOnly=true;
  IncSolver* s=new IncSolver(vs,cs);
  int steps=2+nx()%8;
  for(int st=0;st<steps && !bad;st++){
    if(st>0){ int op=nx()%3; if(op==0||op==2){ int k=1+nx()%3; for(int j=0;j<k;j++){ C c=gen(); p.cs.push_back(c); Constraint* nc=new Constraint(vs[c.l],vs[c.r],c.g,c.eq); all.push_back(nc); cs.push_back(nc); s->addConstraint(nc);} } if(op>=1){ int k=1+nx()%n; for(int j=0;j<k;j++){ int i=nx()%n; p.d[i]=double(nx()%41)-20; vs[i]->desiredPosition=p.d[i]; } } }
    bool doSolve=nx()%4!=0; bool threw=false; std::string what;
    try{ if(doSolve) s->solve(); else s->satisfy(); } catch(char*){ threw=true; what="char*";} catch(UnsatisfiedConstraint&){threw=true; what="UC";} catch(CriticalFailure&f){ threw=true; what=f.what(); } catch(...){ threw=true; what="other"; }
    for(auto&c:p.cs) if(c.eq) ineqOnly=false;
    int mm=p.cs.size(); std::vector<bool> skip(mm,false); bool anyflag=false; for(int k=0;k<mm;k++) if(all[k]->unsatisfiable){ skip[k]=true; anyflag=true; }
    bool feas=(mode&4)?true:feasible(p);
    if(threw){ printf("seed %llu step %d threw %s\n",(unsigned long long)seed,st,what.c_str()); bad++; break; }
    for(int k=0;k<mm;k++){ if(skip[k]) continue; const C&c=p.cs[k]; double lhs=p.s[c.l]*vs[c.l]->finalPosition+c.g, rhs=p.s[c.r]*vs[c.r]->finalPosition; if(lhs>rhs+1e-6 || (c.eq&&fabs(lhs-rhs)>1e-6)){ printf("seed %llu step %d constraint %d violated: %g > %g eq=%d solve=%d\n",(unsigned long long)seed,st,k,lhs,rhs,c.eq,doSolve); bad++; } }
    for(int i=0;i<n;i++) if(!std::isfinite(vs[i]->finalPosition)){ printf("nonfinite\n"); bad++; }
    if(ineqOnly && !(mode&4)){ if(anyflag&&feas){ printf("seed %llu step %d flagged but feasible\n",(unsigned long long)seed,st); bad++; } if(!anyflag&&!feas){ printf("seed %llu step %d infeasible none flagged\n",(unsigned long long)seed,st); bad++; } }
    if(doSolve && !anyflag){ std::vector<double> x; if(hildreth(p,x,skip)){ double sc=1; for(int i=0;i<n;i++) sc=std::max(sc,fabs(p.d[i])); double md=0; for(int i=0;i<n;i++) md=std::max(md,fabs(x[i]-vs[i]->finalPosition)); if(md>1e-4*sc){ printf("seed %llu step %d optimum differs by %g\n",(unsigned long long)seed,st,md); bad++; } } }
  }
  delete s; return bad?1:0; }
