// prototype seeded allocator: fixed-address arena, random slot choice per size class
#include <cstdlib>
#include <cstdio>
#include <cstring>
#include <cstdint>
#include <new>
#include <sys/mman.h>
static const uintptr_t BASE=0x200000000000ULL;
static const size_t ARENA=(size_t)8<<30;
static char* arena=nullptr; static size_t brk_=0;
static uint64_t rng=88172645463325252ULL;
extern "C" void simalloc_seed(uint64_t s){ rng = s*0x9E3779B97F4A7C15ULL+1; }
static inline uint64_t nxt(){ rng^=rng<<13; rng^=rng>>7; rng^=rng<<17; return rng; }
struct Hdr{ size_t cls; size_t req; };
static const int NCLS=48; 
static void** freel[NCLS]; static size_t nfree[NCLS], capfree[NCLS];
static size_t cls_size(int c){ return (size_t)16<<(c/2) | ((c&1)? (size_t)8<<(c/2):0); }
static int cls_for(size_t n){ for(int c=0;c<NCLS;c++) if(cls_size(c)>=n) return c; return -1; }
static void init(){ arena=(char*)mmap((void*)BASE,ARENA,PROT_READ|PROT_WRITE,MAP_PRIVATE|MAP_ANONYMOUS|MAP_NORESERVE|MAP_FIXED_NOREPLACE,-1,0); if(arena==MAP_FAILED||(uintptr_t)arena!=BASE){ fprintf(stderr,"arena map failed\n"); abort(); } }
static void* raw(size_t n){ n=(n+15)&~(size_t)15; void* p=arena+brk_; brk_+=n; if(brk_>ARENA) abort(); return p; }
static void refill(int c){ // carve a batch of 64 slots, push in random order
  size_t sz=cls_size(c)+sizeof(Hdr); int batch= sz>65536?1:32;
  if(nfree[c]+batch>capfree[c]){ size_t nc=capfree[c]?capfree[c]*2:256; void** nf=(void**)raw(nc*sizeof(void*)); memcpy(nf,freel[c],nfree[c]*sizeof(void*)); freel[c]=nf; capfree[c]=nc; }
  for(int i=0;i<batch;i++){ freel[c][nfree[c]++]=raw(sz); }
}
void* sim_malloc(size_t n){ if(!arena) init(); if(n==0) n=1; int c=cls_for(n); if(c<0) abort(); if(nfree[c]==0) refill(c);
  size_t k=nxt()%nfree[c]; void* p=freel[c][k]; freel[c][k]=freel[c][--nfree[c]]; Hdr* h=(Hdr*)p; h->cls=c; h->req=n; char* u=(char*)(h+1);
  uint8_t fill=(uint8_t)(nxt()>>56); memset(u,fill|1,n); return u; }
void sim_free(void* u){ if(!u) return; Hdr* h=(Hdr*)u-1; int c=h->cls; memset(u,0xDD,h->req);
  if(nfree[c]+1>capfree[c]){ size_t nc=capfree[c]?capfree[c]*2:256; void** nf=(void**)raw(nc*sizeof(void*)); memcpy(nf,freel[c],nfree[c]*sizeof(void*)); freel[c]=nf; capfree[c]=nc; }
  freel[c][nfree[c]++]=h; }
void* operator new(size_t n){ return sim_malloc(n);} void* operator new[](size_t n){ return sim_malloc(n);} 
void operator delete(void* p) noexcept { sim_free(p);} void operator delete[](void* p) noexcept { sim_free(p);} 
void operator delete(void* p,size_t) noexcept { sim_free(p);} void operator delete[](void* p,size_t) noexcept { sim_free(p);} 
