#!/bin/bash
# usage: build.sh outdir "flags"
out=$1; shift; flags="$*"
mkdir -p $out
ls /repo/cola/lib{vpsc,cola,avoid,topology,dialect}/*.cpp | xargs -P16 -I{} sh -c 'f={}; o='$out'/$(echo $f | sed "s#/repo/cola/##; s#/#_#g; s#\.cpp#.o#"); g++ -std=gnu++11 -c '"$flags"' -I/repo/cola $f -o $o 2>'$out'/$(basename $f).err || echo FAIL $f'
ar rcs $out/libadapt.a $out/*.o
