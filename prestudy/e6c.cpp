#include "libcola/cola.h"
#include "libcola/cluster.h"
#include <cstdio>
#include <cstdlib>
#include <cstdint>
#include <cmath>
#include <vector>
#include <cstring>
using namespace cola;
extern "C" void simalloc_seed(uint64_t);
static uint64_t r=1; static uint64_t nx(){ r^=r<<13; r^=r>>7; r^=r<<17; return r; }
struct StopAt: TestConvergence { int k; int calls=0; StopAt(int k):TestConvergence(1e-4,100),k(k){} bool operator()(const double s,std::valarray<double>&X,std::valarray<double>&Y){ calls++; if(calls>=k) return true; return TestConvergence::operator()(s,X,Y);} };
int main(int argc,char**argv){ uint64_t seed=atoll(argv[1]); simalloc_seed(atoll(argv[2])); r=seed*2654435761u+424243;
  int n=4+nx()%8; vpsc::Rectangles rs; for(int i=0;i<n;i++){ double w=10+(nx()%4)*10,h=10+(nx()%3)*10; double x=double(nx()%200), y=double(nx()%200); rs.push_back(new vpsc::Rectangle(x,x+w,y,y+h)); }
  std::vector<Edge> es; for(int i=1;i<n;i++) if(nx()%3) es.push_back({nx()%i,i});
  // clusters: partition some nodes into 1-3 top-level clusters, optional nested child
  int nc=1+nx()%3; std::vector<int> owner(n,-1); RootCluster* root=new RootCluster(); std::vector<RectangularCluster*> cl; std::vector<std::vector<int>> members; std::vector<int> parent;
  for(int c=0;c<nc;c++){ RectangularCluster* rc=new RectangularCluster(); if(nx()%2) rc->setPadding(double(nx()%3)*5); if(nx()%2) rc->setMargin(double(nx()%3)*5); cl.push_back(rc); members.push_back({}); parent.push_back(-1); }
  for(int i=0;i<n;i++){ if(nx()%3){ int c=nx()%nc; owner[i]=c; } }
  // nested: split cluster 0's members into a child
  bool nested=nx()%2; if(nested){ RectangularCluster* rc=new RectangularCluster(); cl.push_back(rc); members.push_back({}); parent.push_back(0); int moved=0; for(int i=0;i<n;i++) if(owner[i]==0 && nx()%2){ owner[i]=(int)cl.size()-1; moved++; } }
  for(int i=0;i<n;i++) if(owner[i]>=0){ cl[owner[i]]->addChildNode(i); members[owner[i]].push_back(i); }
  for(size_t c=0;c<cl.size();c++){ if(parent[c]>=0) cl[parent[c]]->addChildCluster(cl[c]); else root->addChildCluster(cl[c]); }
  StopAt done(1+nx()%15);
  ConstrainedFDLayout alg(rs,es,40,StandardEdgeLengths,&done); alg.setClusterHierarchy(root); alg.setAvoidNodeOverlaps(true);
  UnsatisfiableConstraintInfos ux,uy; alg.setUnsatisfiableConstraintInfo(&ux,&uy);
  int bad=0; try{ alg.makeFeasible(); alg.run(); } catch(vpsc::CriticalFailure&f){ printf("seed %llu CriticalFailure %s\n",(unsigned long long)seed,f.what().c_str()); return 3; } catch(...){ printf("seed %llu exception\n",(unsigned long long)seed); return 3; }
  bool unsat=!ux.empty()||!uy.empty();
  // all members incl. descendants
  auto allm=[&](int c){ std::vector<int> v=members[c]; for(size_t d=0;d<cl.size();d++) if(parent[d]==c) for(int i:members[d]) v.push_back(i); return v; };
  auto bbox=[&](const std::vector<int>&v,double*b){ b[0]=b[2]=1e18; b[1]=b[3]=-1e18; for(int i:v){ b[0]=std::min(b[0],rs[i]->getMinX()); b[1]=std::max(b[1],rs[i]->getMaxX()); b[2]=std::min(b[2],rs[i]->getMinY()); b[3]=std::max(b[3],rs[i]->getMaxY()); } };
  if(!unsat){
    for(int i=0;i<n;i++) for(int j=i+1;j<n;j++){ double ox=std::min(rs[i]->getMaxX(),rs[j]->getMaxX())-std::max(rs[i]->getMinX(),rs[j]->getMinX()), oy=std::min(rs[i]->getMaxY(),rs[j]->getMaxY())-std::max(rs[i]->getMinY(),rs[j]->getMinY()); if(ox>1e-3&&oy>1e-3){ printf("seed %llu node overlap %d %d %g x %g\n",(unsigned long long)seed,i,j,ox,oy); bad++; } }
    for(size_t a=0;a<cl.size();a++){ std::vector<int> ma=allm(a); if(ma.empty()) continue; double A[4]; bbox(ma,A);
      for(size_t b=a+1;b<cl.size();b++){ if(parent[a]!=parent[b]) continue; std::vector<int> mb=allm(b); if(mb.empty()) continue; double B[4]; bbox(mb,B); double ox=std::min(A[1],B[1])-std::max(A[0],B[0]), oy=std::min(A[3],B[3])-std::max(A[2],B[2]); if(ox>1e-3&&oy>1e-3){ printf("seed %llu sibling clusters %zu %zu member bboxes overlap %g x %g\n",(unsigned long long)seed,a,b,ox,oy); bad++; } }
      for(int i=0;i<n;i++){ bool in=false; for(int m:ma) if(m==i) in=true; if(in) continue; double ox=std::min(A[1],rs[i]->getMaxX())-std::max(A[0],rs[i]->getMinX()), oy=std::min(A[3],rs[i]->getMaxY())-std::max(A[2],rs[i]->getMinY()); if(ox>1e-3&&oy>1e-3){ printf("seed %llu node %d intrudes cluster %zu bbox by %g x %g (iters=%d)\n",(unsigned long long)seed,i,a,ox,oy,done.calls); bad++; } } }
  }
  { uint64_t h=1469598103934665603ULL; for(int i=0;i<n;i++){ double v[2]={rs[i]->getCentreX(),rs[i]->getCentreY()}; for(int k=0;k<2;k++){ uint64_t a; memcpy(&a,&v[k],8); h=(h^a)*1099511628211ULL; } } printf("hash %016llx unsat=%d\n",(unsigned long long)h,unsat);} 
  return bad?1:0; }
