#include "libavoid/libavoid.h"
#include "libvpsc/assertions.h"
#include <cstdio>
#include <cstdlib>
#include <cstdint>
#include <cmath>
#include <vector>
#include <map>
using namespace Avoid;
static uint64_t r=1; static uint64_t nx(){ r^=r<<13; r^=r>>7; r^=r<<17; return r; }
struct R{double x,y,w,h;};
static bool overlap(const R&a,const R&b,double m){ return a.x-m<b.x+b.w && b.x-m<a.x+a.w && a.y-m<b.y+b.h && b.y-m<a.y+a.h; }
static bool segIn(double px,double py,double qx,double qy,const R&o){ double x0=o.x,x1=o.x+o.w,y0=o.y,y1=o.y+o.h; double t0=0,t1=1; double dx=qx-px, dy=qy-py; double P[4]={-dx,dx,-dy,dy}, Q[4]={px-x0,x1-px,py-y0,y1-py}; for(int i=0;i<4;i++){ if(P[i]==0){ if(Q[i]<=0) return false; } else { double t=Q[i]/P[i]; if(P[i]<0){ if(t>t0) t0=t; } else { if(t<t1) t1=t; } } } return t0<t1-1e-9; }
struct MyRouter: Router { int cancelAt=-1; int calls=0; int aborted=0; std::vector<unsigned> phases; MyRouter(unsigned f):Router(f){} bool shouldContinueTransactionWithProgress(unsigned el,unsigned ph,unsigned tot,double prop){ calls++; phases.push_back(ph); if(ph!=TransactionPhaseCompleted && calls==cancelAt){ aborted++; return false;} return true; } };
int main2(int argc,char**argv);
int main(int argc,char**argv){ try{ return main2(argc,argv);} catch(vpsc::CriticalFailure&f){ printf("CriticalFailure %s\n",f.what().c_str()); return 3; } }
int main2(int argc,char**argv){ uint64_t seed=atoll(argv[1]); int ortho=atoi(argv[2]); int mode=atoi(argv[3]); // mode bit0: transactions off, bit1: crossing penalty + cancel
  r=seed*2654435761u+1212;
  std::vector<R> rs; int n=2+nx()%5; for(int i=0;i<n;i++){ for(int t=0;t<50;t++){ R c{double(nx()%40)*10,double(nx()%30)*10,double(30+(nx()%6)*10),double(30+(nx()%5)*10)}; bool ok=true; for(auto&o:rs) if(overlap(c,o,30)) ok=false; if(ok){ rs.push_back(c); break;} } } n=rs.size(); if(n<2) return 0;
  MyRouter* router=new MyRouter(ortho?OrthogonalRouting:PolyLineRouting); router->setRoutingParameter(segmentPenalty,ortho?50:0);
  if(mode&2){ router->setRoutingParameter(crossingPenalty,200); }
  if(mode&1) router->setTransactionUse(false);
  std::vector<ShapeRef*> sh; for(auto&c:rs){ Rectangle rr(Point(c.x,c.y),Point(c.x+c.w,c.y+c.h)); ShapeRef*s=new ShapeRef(router,rr); sh.push_back(s); new ShapeConnectionPin(s,1,0.5,0.5,true,0,ConnDirNone); new ShapeConnectionPin(s,2,ATTACH_POS_LEFT,0.5,true,5,ConnDirLeft); new ShapeConnectionPin(s,2,ATTACH_POS_RIGHT,0.5,true,5,ConnDirRight); }
  std::vector<ConnRef*> cs; int m=2+nx()%6; for(int i=0;i<m;i++){ int a=nx()%n,b=nx()%n; if(a==b) b=(a+1)%n; if(nx()%3==0){ Point p(double(nx()%400),double(nx()%300)); bool ok=true; for(auto&o:rs) if(p.x>=o.x-2&&p.x<=o.x+o.w+2&&p.y>=o.y-2&&p.y<=o.y+o.h+2) ok=false; if(ok){ cs.push_back(new ConnRef(router,ConnEnd(sh[a],1),ConnEnd(p))); continue; } } cs.push_back(new ConnRef(router,ConnEnd(sh[a],1),ConnEnd(sh[b],1))); }
  router->processTransaction();
  int steps=2+nx()%6; int recov=0, badc=0;
  for(int st=0;st<steps;st++){ int op=nx()%10; int i=nx()%n; 
    if(mode&2){ router->calls=0; router->cancelAt=(nx()%2)?1+nx()%40:-1; }
    if(op<6 && sh[i]){ R c=rs[i]; c.x+=double(int(nx()%11)-5)*10; c.y+=double(int(nx()%11)-5)*10; bool ok=true; for(int j=0;j<n;j++) if(j!=i&&sh[j]&&overlap(c,rs[j],30)) ok=false; if(ok){ router->moveShape(sh[i],c.x-rs[i].x,c.y-rs[i].y); rs[i]=c; } }
    else if(op<8 && sh[i]){ int alive=0; for(auto s:sh) if(s) alive++; if(alive>2){ router->deleteShape(sh[i]); sh[i]=nullptr; } }
    else if(!cs.empty()){ int k=nx()%cs.size(); router->deleteConnector(cs[k]); cs.erase(cs.begin()+k); }
    int abBefore=router->aborted; router->processTransaction();
    bool wasAborted=router->aborted>abBefore;
    if(wasAborted){ router->cancelAt=-1; router->calls=0; for(int j=0;j<n;j++) if(sh[j]){ router->moveShape(sh[j],0,0); break; } router->processTransaction(); recov++; }
    for(size_t k=0;k<cs.size();k++){ const PolyLine& d=cs[k]->displayRoute(); if(d.size()<2){ printf("seed %llu step %d conn %zu has empty route (afterAbort=%d)\n",(unsigned long long)seed,st,k,(int)wasAborted); badc++; continue; } for(size_t q=1;q<d.size();q++){ for(int j=0;j<n;j++){ if(!sh[j]) continue; bool endIn=false; Point a=d.ps.front(), b=d.ps.back(); const R&o=rs[j]; auto inside=[&](Point p){ return p.x>=o.x&&p.x<=o.x+o.w&&p.y>=o.y&&p.y<=o.y+o.h; }; if(inside(a)||inside(b)) continue; if(segIn(d.ps[q-1].x,d.ps[q-1].y,d.ps[q].x,d.ps[q].y,o)){ printf("seed %llu step %d conn %zu passes through shape %d (afterAbort=%d)\n",(unsigned long long)seed,st,k,j,(int)wasAborted); badc++; } } } }
  }
  printf("seed %llu ok aborted=%d recov=%d bad=%d\n",(unsigned long long)seed,router->aborted,recov,badc);
  delete router; return badc?1:0; }
