#include "libdialect/commontypes.h"
#include "libdialect/io.h"
#include "libdialect/graphs.h"
#include "libdialect/peeling.h"
#include "libdialect/trees.h"
#include <cstdio>
#include <cstdlib>
#include <cstdint>
#include <cmath>
#include <sstream>
#include <set>
#include <map>
using namespace dialect;
static uint64_t r=1; static uint64_t nx(){ r^=r<<13; r^=r>>7; r^=r<<17; return r; }
int main(int argc,char**argv){ uint64_t seed=atoll(argv[1]); r=seed*2654435761u+97531; for(int z=0;z<atoi(argv[2]);z++) Node::allocate();
  int n=2+nx()%30; std::ostringstream t; for(int i=0;i<n;i++) t<<i<<" "<<double(nx()%400)<<" "<<double(nx()%400)<<" 20 20\n"; t<<"#\n";
  std::set<std::pair<int,int>> es; for(int i=1;i<n;i++){ int j=nx()%i; es.insert({j,i}); } int style=nx()%3; int extra=style==0?0:(style==1?1+nx()%3:nx()%(n)); for(int k=0;k<extra;k++){ int a=nx()%n,b=nx()%n; if(a==b) continue; if(a>b) std::swap(a,b); es.insert({a,b}); }
  for(auto&e:es) t<<e.first<<" "<<e.second<<"\n"; std::string s=t.str(); Graph_SP g=buildGraphFromTglf(s);
  std::map<id_type,unsigned> ext; for(auto&p:g->getNodeLookup()) ext[p.first]=p.second->getExternalId();
  int bad=0; Trees trees;
  try{ trees=peel(*g); } catch(vpsc::CriticalFailure&f){ printf("seed %llu CriticalFailure %s\n",(unsigned long long)seed,f.what().c_str()); return 3; } catch(std::exception&e){ printf("seed %llu exception %s\n",(unsigned long long)seed,e.what()); return 3; }
  std::map<id_type,int> count; for(auto&p:g->getNodeLookup()) count[p.first]++; size_t edgesTotal=g->getNumEdges(); std::set<id_type> roots;
  for(auto&tr:trees){ Graph_SP tg=tr->underlyingGraph(); if(tg->getNumEdges()!=tg->getNumNodes()-1){ printf("seed %llu tree not a tree: %zu nodes %zu edges\n",(unsigned long long)seed,tg->getNumNodes(),tg->getNumEdges()); bad++; } edgesTotal+=tg->getNumEdges(); id_type rid=tr->getRootNodeID(); roots.insert(rid); for(auto&p:tg->getNodeLookup()){ if(p.first==rid) continue; count[p.first]++; }
    // connectivity of tree
    std::map<id_type,std::vector<id_type>> adj; for(auto&q:tg->getEdgeLookup()){ id_type a=q.second->getSourceEnd()->id(), b=q.second->getTargetEnd()->id(); adj[a].push_back(b); adj[b].push_back(a);} std::set<id_type> seen; std::vector<id_type> st{rid}; seen.insert(rid); while(!st.empty()){ id_type u=st.back(); st.pop_back(); for(id_type v:adj[u]) if(seen.insert(v).second) st.push_back(v);} if(seen.size()!=tg->getNumNodes()){ printf("seed %llu tree disconnected\n",(unsigned long long)seed); bad++; } }
  for(id_type rid:roots) if(g->getNumNodes()>0 && !g->getNodeLookup().count(rid) && !(g->getNumNodes()==1)){ printf("seed %llu root %u not in core\n",(unsigned long long)seed,(unsigned)rid); bad++; }
  for(auto&p:ext) if(count[p.first]!=1){ printf("seed %llu node ext %u appears %d times\n",(unsigned long long)seed,p.second,count[p.first]); bad++; }
  if(edgesTotal!=es.size()){ printf("seed %llu edges %zu != %zu\n",(unsigned long long)seed,edgesTotal,es.size()); bad++; }
  if(g->getNumNodes()>1) for(auto&p:g->getNodeLookup()) if(p.second->getDegree()==1){ printf("seed %llu core has degree-1 node\n",(unsigned long long)seed); bad++; }
  // symmetric layout: no two nodes coincide
  for(auto&tr:trees){ try{ tr->symmetricLayout(CardinalDir::SOUTH,10,40); } catch(...){ printf("seed %llu symmetricLayout threw\n",(unsigned long long)seed); bad++; continue;} auto&nl=tr->underlyingGraph()->getNodeLookup(); std::set<std::pair<long,long>> pos; for(auto&p:nl){ auto c=p.second->getCentre(); if(!pos.insert({lround(c.x*1000),lround(c.y*1000)}).second){ printf("seed %llu two tree nodes coincide\n",(unsigned long long)seed); bad++; break; } } }
  return bad?1:0; }
