#include <cstddef>
#include <cstring>
#include "libvpsc/rectangle.h"
#include "libvpsc/exceptions.h"
#include "libvpsc/assertions.h"
#include <cstdio>
#include <cstdlib>
#include <cstdint>
#include <cmath>
#include <vector>
#include <set>
using namespace vpsc;
extern "C" void simalloc_seed(uint64_t);
static uint64_t r=1; static uint64_t nx(){ r^=r<<13; r^=r>>7; r^=r<<17; return r; }
int main(int argc,char**argv){ uint64_t seed=atoll(argv[1]); simalloc_seed(atoll(argv[2])); r=seed*2654435761u+8642;
  int n=2+nx()%12; int style=nx()%4; Rectangles rs; std::vector<double> W,H,X0,Y0;
  for(int i=0;i<n;i++){ double w,h,x,y; if(style==0){ w=10+(nx()%5)*5; h=10+(nx()%5)*5; x=double(nx()%60); y=double(nx()%60);} else if(style==1){ w=20;h=20;x=double(nx()%3)*10;y=double(nx()%3)*10;} else if(style==2){ w=20;h=10;x=50;y=50; } else { w=5+(nx()%30); h=5+(nx()%30); x=double(nx()%100)/3; y=double(nx()%100)/3; }
    rs.push_back(new Rectangle(x,x+w,y,y+h)); W.push_back(w);H.push_back(h);X0.push_back(x+w/2);Y0.push_back(y+h/2); }
  std::set<unsigned> fixed; if(nx()%2){ int k=1+nx()%2; for(int j=0;j<k;j++) fixed.insert(nx()%n); } bool third=nx()%2;
  // fixed rectangles must not overlap each other for the property to be satisfiable: drop overlapping fixed
  for(auto i=fixed.begin();i!=fixed.end();){ bool ov=false; for(auto j:fixed) if(j<*i){ if(rs[*i]->overlapX(rs[j])>0&&rs[*i]->overlapY(rs[j])>0) ov=true; } if(ov) i=fixed.erase(i); else ++i; }
  double bx=Rectangle::xBorder, by=Rectangle::yBorder; int bad=0;
  try{ removeoverlaps(rs,fixed,third); } catch(CriticalFailure&f){ printf("seed %llu CriticalFailure %s\n",(unsigned long long)seed,f.what().c_str()); return 1; } catch(...){ printf("seed %llu exception\n",(unsigned long long)seed); return 1; }
  if(Rectangle::xBorder!=bx||Rectangle::yBorder!=by){ printf("seed %llu border not restored\n",(unsigned long long)seed); bad++; }
  double avg=0; for(int i=0;i<n;i++) avg+=(W[i]+H[i])/2; avg/=n;
  for(int i=0;i<n;i++){ if(fabs(rs[i]->width()-W[i])>1e-9||fabs(rs[i]->height()-H[i])>1e-9){ printf("seed %llu size changed\n",(unsigned long long)seed); bad++; } }
  for(auto i:fixed){ double d=hypot(rs[i]->getCentreX()-X0[i],rs[i]->getCentreY()-Y0[i]); if(d>0.01*avg){ printf("seed %llu fixed %u moved %g (avg %g, n=%d style=%d)\n",(unsigned long long)seed,i,d,avg,n,style); bad++; } }
  for(int i=0;i<n;i++) for(int j=i+1;j<n;j++){ double ox=std::min(rs[i]->getMaxX(),rs[j]->getMaxX())-std::max(rs[i]->getMinX(),rs[j]->getMinX()), oy=std::min(rs[i]->getMaxY(),rs[j]->getMaxY())-std::max(rs[i]->getMinY(),rs[j]->getMinY()); if(ox>1e-6&&oy>1e-6){ printf("seed %llu overlap %d %d %g x %g style=%d third=%d nfixed=%zu\n",(unsigned long long)seed,i,j,ox,oy,style,third,fixed.size()); bad++; } }
  { uint64_t h=1469598103934665603ULL; for(int i=0;i<n;i++){ double v[2]={rs[i]->getCentreX(),rs[i]->getCentreY()}; for(int k=0;k<2;k++){ uint64_t a; memcpy(&a,&v[k],8); h=(h^a)*1099511628211ULL; } } printf("hash %016llx\n",(unsigned long long)h);} 
  return bad?1:0; }
