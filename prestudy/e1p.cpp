#include "libavoid/libavoid.h"
#include <cstdio>
#include <cstdlib>
#include <cstdint>
#include <cmath>
#include <vector>
#include <queue>
#include <map>
using namespace Avoid;
static uint64_t r=1; static uint64_t nx(){ r^=r<<13; r^=r>>7; r^=r<<17; return r; }
struct R{double x,y,w,h;}; struct Pt{double x,y;};
typedef std::vector<Pt> Poly; // CCW
static bool overlap(const R&a,const R&b,double m){ return a.x-m<b.x+b.w && b.x-m<a.x+a.w && a.y-m<b.y+b.h && b.y-m<a.y+a.h; }
static double cr(Pt a,Pt b,Pt c){ return (b.x-a.x)*(c.y-a.y)-(b.y-a.y)*(c.x-a.x); }
static Poly mk(const R&c){ int kind=nx()%4; Poly p; auto rect=[&](){ return Poly{{c.x,c.y},{c.x+c.w,c.y},{c.x+c.w,c.y+c.h},{c.x,c.y+c.h}}; }; if(kind==0) return rect(); double a=c.x+5*(nx()%int(c.w/5+1)), b=c.y+5*(nx()%int(c.h/5+1)), d=c.x+5*(nx()%int(c.w/5+1)), e=c.y+5*(nx()%int(c.h/5+1)); Poly v{{a,c.y},{c.x+c.w,b},{d,c.y+c.h}}; if(kind>=2) v.push_back({c.x,e}); Poly u; for(auto&pt:v){ bool dup=false; for(auto&z:u) if(z.x==pt.x&&z.y==pt.y) dup=true; if(!dup) u.push_back(pt);} if(u.size()<3) return rect(); double area=0; for(size_t i=0;i<u.size();i++){ Pt&A=u[i],&B=u[(i+1)%u.size()]; area+=A.x*B.y-B.x*A.y; } bool ok=area>50; for(size_t i=0;i<u.size()&&ok;i++) if(cr(u[i],u[(i+1)%u.size()],u[(i+2)%u.size()])<=0) ok=false; return ok?u:rect(); }
// open segment vs open convex polygon interior: Cyrus-Beck; returns true if positive-length part strictly inside
static bool segHits(Pt p,Pt q,const Poly&P){ double t0=0,t1=1; int n=P.size(); for(int i=0;i<n;i++){ Pt a=P[i],b=P[(i+1)%n]; double dp=cr(a,b,p), dq=cr(a,b,q); // >0 inside (left)
    if(dp<=0&&dq<=0) return false; if(dp>0&&dq>0) continue; double t=dp/(dp-dq); if(dp<=0){ if(t>t0) t0=t; } else { if(t<t1) t1=t; } } return t0<t1-1e-12; }
static double D(Pt a,Pt b){ return hypot(a.x-b.x,a.y-b.y); }
int main(int argc,char**argv){ uint64_t seed=atoll(argv[1]); double pen=atof(argv[2]); r=seed*2654435761u+4242;
  std::vector<R> rs; int n=1+nx()%8; for(int i=0;i<n;i++){ for(int t=0;t<50;t++){ R c{double(nx()%40)*10,double(nx()%30)*10,double(20+(nx()%8)*10),double(20+(nx()%6)*10)}; bool ok=true; for(auto&o:rs) if(overlap(c,o,5)) ok=false; if(ok){ rs.push_back(c); break;} } } n=rs.size(); std::vector<Poly> ps; for(auto&c:rs) ps.push_back(mk(c));
  Router* router=new Router(PolyLineRouting); router->setRoutingParameter(segmentPenalty,pen);
  for(auto&P:ps){ Polygon pg(P.size()); for(size_t i=0;i<P.size();i++) pg.ps[i]=Point(P[i].x,P[i].y); new ShapeRef(router,pg);} 
  auto freept=[&](){ for(;;){ Pt p{double(nx()%90)*5-15, double(nx()%70)*5-15}; bool ok=true; for(auto&o:rs) if(p.x>=o.x-1&&p.x<=o.x+o.w+1&&p.y>=o.y-1&&p.y<=o.y+o.h+1) ok=false; if(ok) return p; } };
  int m=1+nx()%4; std::vector<std::pair<Pt,Pt>> ends; std::vector<ConnRef*> cs; for(int i=0;i<m;i++){ Pt a=freept(),b=freept(); if(a.x==b.x&&a.y==b.y){ b.x+=5; } ends.push_back({a,b}); cs.push_back(new ConnRef(router,ConnEnd(Point(a.x,a.y)),ConnEnd(Point(b.x,b.y)))); }
  router->processTransaction(); int bad=0;
  struct Nd{Pt p; int poly; int vi;}; 
  for(int ci=0;ci<m;ci++){
    std::vector<Nd> nodes; nodes.push_back({ends[ci].first,-1,0}); nodes.push_back({ends[ci].second,-1,0}); for(size_t k=0;k<ps.size();k++) for(size_t v=0;v<ps[k].size();v++) nodes.push_back({ps[k][v],(int)k,(int)v});
    int N=nodes.size(); auto wedge=[&](int u,Pt p)->int{ const Poly&P=ps[nodes[u].poly]; int nn=P.size(); Pt b=P[nodes[u].vi], d=P[(nodes[u].vi+nn-1)%nn], e=P[(nodes[u].vi+1)%nn]; double s1=cr(d,b,p), s2=cr(b,e,p); if(s1>0&&s2>0) return -1; if(s1<0&&s2<0) return -2; if(s1<=0&&s2>=0) return 1; return 2; };
    std::vector<std::vector<char>> vis(N,std::vector<char>(N,0)); for(int i=0;i<N;i++) for(int j=i+1;j<N;j++){ bool ok=true; for(auto&P:ps) if(segHits(nodes[i].p,nodes[j].p,P)){ ok=false; break;} if(ok){ if(i>=2&&wedge(i,nodes[j].p)<0) ok=false; if(j>=2&&wedge(j,nodes[i].p)<0) ok=false; } vis[i][j]=vis[j][i]=ok; }
    const PolyLine& rt=cs[ci]->displayRoute(); double len=0; int bends=(int)rt.size()-2; for(size_t i=1;i<rt.size();i++){ Pt a{rt.ps[i-1].x,rt.ps[i-1].y}, b{rt.ps[i].x,rt.ps[i].y}; len+=D(a,b); for(auto&P:ps) if(segHits(a,b,P)){ printf("seed %llu conn %d route crosses obstacle\n",(unsigned long long)seed,ci); bad++; } }
    typedef std::pair<double,std::pair<int,int>> QE; std::priority_queue<QE,std::vector<QE>,std::greater<QE>> pq; std::map<std::pair<int,int>,double> dist; pq.push({0,{0,-1}}); dist[{0,-1}]=0; double best=-1;
    while(!pq.empty()){ auto [d,st]=pq.top(); pq.pop(); if(dist[st]<d-1e-12) continue; int u=st.first,pv=st.second; if(u==1){ best=d; break;} for(int v=0;v<N;v++){ if(v==u||v==pv||!vis[u][v]) continue; double c=D(nodes[u].p,nodes[v].p); if(c==0) continue; if(pv>=0){ double crs=cr(nodes[pv].p,nodes[u].p,nodes[v].p); double dt=(nodes[u].p.x-nodes[pv].p.x)*(nodes[v].p.x-nodes[u].p.x)+(nodes[u].p.y-nodes[pv].p.y)*(nodes[v].p.y-nodes[u].p.y); if(!(crs==0&&dt>0)){ if(u<2) continue; /* no bends at endpoints */ int wa=wedge(u,nodes[pv].p), wb=wedge(u,nodes[v].p); if(wa==wb) continue; const Poly&P=ps[nodes[u].poly]; int nn=P.size(); Pt b=P[nodes[u].vi], dd=P[(nodes[u].vi+nn-1)%nn], e=P[(nodes[u].vi+1)%nn]; Pt diag{(dd.x-b.x)/D(dd,b)+(e.x-b.x)/D(e,b),(dd.y-b.y)/D(dd,b)+(e.y-b.y)/D(e,b)}; double ix=nodes[u].p.x-nodes[pv].p.x, iy=nodes[u].p.y-nodes[pv].p.y; double cd=ix*diag.y-iy*diag.x; if((crs>0)!=(cd>0)) continue; c+=pen; } } auto ns=std::make_pair(v,u); auto it=dist.find(ns); if(it==dist.end()||it->second>d+c+1e-12){ dist[ns]=d+c; pq.push({d+c,ns}); } } }
    double implcost=len+pen*bends; if(best>=0 && fabs(implcost-best)>1e-6){ printf("seed %llu conn %d impl cost %.9f (len %.9f bends %d) oracle %.9f %s\n",(unsigned long long)seed,ci,implcost,len,bends,best,implcost<best?"IMPL-CHEAPER":"impl-worse"); bad++; }
  }
  delete router; return bad?1:0; }
