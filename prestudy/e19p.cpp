#include "libvpsc/assertions.h"
#include "libdialect/commontypes.h"
#include "libdialect/io.h"
#include "libdialect/graphs.h"
#include "libdialect/routing.h"
#include "libdialect/opts.h"
#include "libdialect/planarise.h"
#include <cstdio>
#include <cstdlib>
#include <cstdint>
#include <cmath>
#include <sstream>
#include <set>
#include <map>
using namespace dialect;
extern "C" void simalloc_seed(uint64_t);
static uint64_t r=1; static uint64_t nx(){ r^=r<<13; r^=r>>7; r^=r<<17; return r; }
int main(int argc,char**argv){ uint64_t seed=atoll(argv[1]); simalloc_seed(atoll(argv[2])); r=seed*2654435761u+1928374;
  // nodes on a jittered grid (no overlaps), degree>=2 graph (cycle + chords) so no leaves
  int gx=2+nx()%3, gy=2+nx()%3; int n=gx*gy; std::ostringstream t; for(int i=0;i<n;i++){ double cx=(i%gx)*120+double(nx()%4)*10, cy=(i/gx)*120+double(nx()%4)*10; t<<i<<" "<<cx<<" "<<cy<<" 30 30\n"; } t<<"#\n";
  std::set<std::pair<int,int>> es; std::vector<int> perm(n); for(int i=0;i<n;i++) perm[i]=i; for(int i=n-1;i>0;i--) std::swap(perm[i],perm[nx()%(i+1)]); for(int i=0;i<n;i++){ int a=perm[i],b=perm[(i+1)%n]; if(a>b) std::swap(a,b); if(a!=b) es.insert({a,b}); } int extra=nx()%(n/2+1); for(int k=0;k<extra;k++){ int a=nx()%n,b=nx()%n; if(a==b) continue; if(a>b) std::swap(a,b); es.insert({a,b}); }
  for(auto&e:es) t<<e.first<<" "<<e.second<<"\n"; std::string s=t.str(); Graph_SP g=buildGraphFromTglf(s); std::map<id_type,unsigned> ext; for(auto&p:g->getNodeLookup()) ext[p.first]=p.second->getExternalId();
  int bad=0; Graph_SP Q;
  try{ HolaOpts opts; LeaflessOrthoRouter lor(g,opts); lor.setShapeBufferDistanceIELScalar(0.125); lor.route(); OrthoPlanariser op(g); Q=op.planarise(); }
  catch(vpsc::CriticalFailure&f){ printf("seed %llu CriticalFailure %s\n",(unsigned long long)seed,f.what().c_str()); return 3; } catch(std::exception&e){ printf("seed %llu exception %s\n",(unsigned long long)seed,e.what()); return 3; }
  // every original node present in Q
  for(auto&p:ext) if(!Q->getNodeLookup().count(p.first)){ printf("seed %llu original node missing in planarised graph\n",(unsigned long long)seed); bad++; }
  // edges of Q: straight axis-aligned segments between node centres? collect segments from routes (or centres)
  struct Seg{double x0,y0,x1,y1; id_type a,b;}; std::vector<Seg> segs; for(auto&p:Q->getEdgeLookup()){ Edge_SP e=p.second; auto rt=e->getRoute(); Node_SP u=e->getSourceEnd(), v=e->getTargetEnd(); std::vector<Avoid::Point> pts=rt; if(pts.size()<2){ pts.clear(); auto cu=u->getCentre(), cv=v->getCentre(); pts.push_back(cu); pts.push_back(cv);} for(size_t k=1;k<pts.size();k++) segs.push_back({pts[k-1].x,pts[k-1].y,pts[k].x,pts[k].y,u->id(),v->id()}); }
  auto properCross=[&](const Seg&A,const Seg&B){ auto o=[&](double ax,double ay,double bx,double by,double cx,double cy){ double v=(bx-ax)*(cy-ay)-(by-ay)*(cx-ax); return v>1e-9?1:(v<-1e-9?-1:0); }; int o1=o(A.x0,A.y0,A.x1,A.y1,B.x0,B.y0), o2=o(A.x0,A.y0,A.x1,A.y1,B.x1,B.y1), o3=o(B.x0,B.y0,B.x1,B.y1,A.x0,A.y0), o4=o(B.x0,B.y0,B.x1,B.y1,A.x1,A.y1); return o1*o2<0 && o3*o4<0; };
  int crossings=0; for(size_t i=0;i<segs.size();i++) for(size_t j=i+1;j<segs.size();j++) if(properCross(segs[i],segs[j])) crossings++;
  if(crossings){ printf("seed %llu planarised graph has %d proper crossings\n",(unsigned long long)seed,crossings); bad++; }
  // connectivity through dummy chains: contract non-original nodes
  std::map<id_type,std::vector<id_type>> adj; for(auto&p:Q->getEdgeLookup()){ id_type a=p.second->getSourceEnd()->id(), b=p.second->getTargetEnd()->id(); adj[a].push_back(b); adj[b].push_back(a);} std::map<unsigned,id_type> byext; for(auto&p:ext) byext[p.second]=p.first;
  for(auto&e:es){ id_type a=byext[e.first], b=byext[e.second]; // BFS from a through dummy nodes only
     std::set<id_type> seen{a}; std::vector<id_type> st{a}; bool found=false; while(!st.empty()&&!found){ id_type u=st.back(); st.pop_back(); for(id_type v:adj[u]){ if(v==b){ found=true; break;} if(ext.count(v)) continue; if(seen.insert(v).second) st.push_back(v);} } if(!found){ printf("seed %llu original edge %d-%d lost\n",(unsigned long long)seed,e.first,e.second); bad++; } }
  { uint64_t h=1469598103934665603ULL; std::string out=Q->writeTglf(); for(char ch:out) h=(h^(unsigned char)ch)*1099511628211ULL; printf("hash %016llx nodes %zu edges %zu\n",(unsigned long long)h,Q->getNumNodes(),Q->getNumEdges()); }
  return bad?1:0; }
