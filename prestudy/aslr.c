#include <stdio.h>
#include <stdlib.h>
#include <unistd.h>
#include <sys/personality.h>
int main(int argc,char**argv){ int x; if(!getenv("NOASLR")){ int p=personality(0xffffffff); if(personality(p|ADDR_NO_RANDOMIZE)==-1){ perror("personality"); } setenv("NOASLR","1",1); execv("/proc/self/exe",argv); perror("execv"); } printf("stack %p heap %p main %p\n",(void*)&x,malloc(10),(void*)main); return 0; }
