#include "libavoid/libavoid.h"
#include "libvpsc/assertions.h"
#include <cstdio>
#include <cstdlib>
#include <cstdint>
#include <cmath>
#include <vector>
#include <map>
#include <set>
using namespace Avoid;
static uint64_t r=1; static uint64_t nx(){ r^=r<<13; r^=r>>7; r^=r<<17; return r; }
struct R{double x,y,w,h;};
static bool overlap(const R&a,const R&b,double m){ return a.x-m<b.x+b.w && b.x-m<a.x+a.w && a.y-m<b.y+b.h && b.y-m<a.y+a.h; }
static int bad=0; static uint64_t seed;
// check hyperedge forest: components containing junctions; returns multiset of terminals (shape id, class)
static void check(Router* router,const std::set<std::pair<unsigned,unsigned>>& expectTerm,const char*when){
  std::map<JunctionRef*,int> jidx; int nj=0; for(Obstacle* o: router->m_obstacles){ JunctionRef*j=dynamic_cast<JunctionRef*>(o); if(j) jidx[j]=nj++; }
  std::set<std::pair<unsigned,unsigned>> terms; int edges=0; std::vector<int> par(nj); for(int i=0;i<nj;i++) par[i]=i; auto find=[&](int x){ while(par[x]!=x) x=par[x]=par[par[x]]; return x; }; int cycles=0;
  for(ConnRef* c: router->connRefs){ auto ce=c->endpointConnEnds(); JunctionRef* j1=ce.first.junction(), *j2=ce.second.junction(); ShapeRef* s1=ce.first.shape(), *s2=ce.second.shape();
    if(!j1&&!j2) continue; // not hyperedge conn
    for(int e=0;e<2;e++){ const ConnEnd& x=e?ce.second:ce.first; if(!x.junction()&&!x.shape()){ printf("seed %llu %s conn %u end %d unattached (type %d)\n",(unsigned long long)seed,when,c->id(),e,(int)x.type()); bad++; } if(x.junction()&&!jidx.count(x.junction())){ printf("seed %llu %s conn %u attached to dead junction\n",(unsigned long long)seed,when,c->id()); bad++; } }
    if(s1) terms.insert({s1->id(),ce.first.pinClassId()}); if(s2) terms.insert({s2->id(),ce.second.pinClassId()});
    if(j1&&j2&&jidx.count(j1)&&jidx.count(j2)){ int a=find(jidx[j1]), b=find(jidx[j2]); if(a==b){ cycles++; } else par[a]=b; }
    const PolyLine& d=c->displayRoute(); if(d.size()<2){ printf("seed %llu %s conn %u empty route\n",(unsigned long long)seed,when,c->id()); bad++; continue; }
    { Point a=d.ps.front(), b=d.ps.back(); auto posOf=[&](const ConnEnd&x){ return x.position(); }; Point q1=posOf(ce.first), q2=posOf(ce.second); auto eq=[&](Point u,Point v){ return fabs(u.x-v.x)<1e-6&&fabs(u.y-v.y)<1e-6; }; auto alt=[&](const ConnEnd&x){ return x.junction()? x.junction()->recommendedPosition() : x.position(); }; Point r1=alt(ce.first), r2=alt(ce.second); auto m=[&](Point u,Point q,Point r){ return eq(u,q)||eq(u,r); }; bool ok=(m(a,q1,r1)&&m(b,q2,r2))||(m(a,q2,r2)&&m(b,q1,r1)); if(!ok){ printf("seed %llu %s conn %u route (%g,%g)-(%g,%g) vs ends (%g,%g),(%g,%g)\n",(unsigned long long)seed,when,c->id(),a.x,a.y,b.x,b.y,q1.x,q1.y,q2.x,q2.y); bad++; } }
  }
  if(cycles){ printf("seed %llu %s cycle among junctions\n",(unsigned long long)seed,when); bad++; }
  std::set<int> comps; for(int i=0;i<nj;i++) comps.insert(find(i)); 
  if(terms!=expectTerm){ printf("seed %llu %s terminals changed: have %zu expect %zu\n",(unsigned long long)seed,when,terms.size(),expectTerm.size()); bad++; }
  if(nj>0 && comps.size()!=1){ printf("seed %llu %s hyperedge split into %zu components (nj=%d)\n",(unsigned long long)seed,when,comps.size(),nj); bad++; }
}
int main2(int argc,char**argv){ seed=atoll(argv[1]); int mode=atoi(argv[2]); r=seed*2654435761u+6767;
  std::vector<R> rs; int n=3+nx()%4; for(int i=0;i<n+2;i++){ for(int t=0;t<80;t++){ R c{double(nx()%50)*10,double(nx()%40)*10,double(30+(nx()%5)*10),double(30+(nx()%4)*10)}; bool ok=true; for(auto&o:rs) if(overlap(c,o,40)) ok=false; if(ok){ rs.push_back(c); break;} } }
  if((int)rs.size()<n) n=rs.size(); if(n<3) return 0;
  Router* router=new Router(OrthogonalRouting); router->setRoutingParameter(segmentPenalty,50); router->setRoutingParameter(idealNudgingDistance,5);
  if(mode&1) router->setRoutingOption(improveHyperedgeRoutesMovingAddingAndDeletingJunctions,true);
  std::vector<ShapeRef*> sh; for(auto&c:rs){ Rectangle rr(Point(c.x,c.y),Point(c.x+c.w,c.y+c.h)); ShapeRef*s=new ShapeRef(router,rr); sh.push_back(s); new ShapeConnectionPin(s,1,0.5,0.5,true,0,ConnDirNone); }
  // junction at a free point
  Point jp; for(;;){ jp=Point(double(nx()%55)*10,double(nx()%45)*10); bool ok=true; for(auto&o:rs) if(jp.x>=o.x-15&&jp.x<=o.x+o.w+15&&jp.y>=o.y-15&&jp.y<=o.y+o.h+15) ok=false; if(ok) break; }
  JunctionRef* j=new JunctionRef(router,jp); std::set<std::pair<unsigned,unsigned>> terms;
  for(int i=0;i<n;i++){ new ConnRef(router,ConnEnd(sh[i],1),ConnEnd(j)); terms.insert({sh[i]->id(),1}); }
  router->processTransaction(); router->processTransaction(); { Avoid::ShapeRef*z=sh[0]; router->moveShape(z,0,0); router->processTransaction(); } check(router,terms,"initial");
  int steps=1+nx()%4;
  for(int st=0;st<steps&&!bad;st++){ int op=nx()%3;
    if(op==0){ JunctionRef* any=nullptr; for(Obstacle*o:router->m_obstacles){ any=dynamic_cast<JunctionRef*>(o); if(any) break; } if(any){ router->hyperedgeRerouter()->registerHyperedgeForRerouting(any); router->processTransaction(); HyperedgeNewAndDeletedObjectLists l=router->hyperedgeRerouter()->newAndDeletedObjectLists(0); router->processTransaction(); check(router,terms,"after reroute"); } }
    else { int i=nx()%rs.size(); R c=rs[i]; c.x+=double(int(nx()%11)-5)*10; c.y+=double(int(nx()%11)-5)*10; bool ok=true; for(size_t k=0;k<rs.size();k++) if((int)k!=i&&overlap(c,rs[k],40)) ok=false; if(ok){ router->moveShape(sh[i],c.x-rs[i].x,c.y-rs[i].y); rs[i]=c; } router->processTransaction(); router->processTransaction(); check(router,terms,"after move"); }
  }
  delete router; return bad?1:0; }
int main(int argc,char**argv){ try{ return main2(argc,argv);} catch(vpsc::CriticalFailure&f){ printf("seed %llu CriticalFailure %s\n",(unsigned long long)seed,f.what().c_str()); return 3; } }
