#include "libavoid/libavoid.h"
#include <cstdio>
#include <cstdlib>
#include <cstdint>
#include <cmath>
#include <vector>
using namespace Avoid;
static uint64_t r=1; static uint64_t nx(){ r^=r<<13; r^=r>>7; r^=r<<17; return r; }
struct R{double x,y,w,h;}; struct Pt{double x,y;};
int main(int argc,char**argv){ uint64_t seed=atoll(argv[1]); int verbose=argc>2; r=seed*2654435761u+31337;
  // grid of cells 200x160; rect inside each cell with margin >=40 => corridors >= 80
  int gx=2+nx()%3, gy=2+nx()%2; std::vector<R> rs; for(int i=0;i<gx;i++) for(int j=0;j<gy;j++){ if(nx()%5==0) continue; double w=40+(nx()%9)*10, h=30+(nx()%6)*10; int mg=(nx()%3==0)?10:40; double x=i*200+mg+(nx()%int((200-2*mg-w)/10+1))*10, y=j*160+mg+(nx()%int((160-2*mg-h)/10+1))*10; rs.push_back({x,y,w,h}); }
  int n=rs.size(); if(n<2) return 0;
  double nd=2+nx()%9; Router* router=new Router(OrthogonalRouting); router->setRoutingParameter(segmentPenalty,50); router->setRoutingParameter(idealNudgingDistance,nd);
  bool optA=nx()%2, optB=nx()%2, optC=nx()%2; router->setRoutingOption(nudgeOrthogonalSegmentsConnectedToShapes,optA); router->setRoutingOption(nudgeOrthogonalTouchingColinearSegments,optB); router->setRoutingOption(performUnifyingNudgingPreprocessingStep,optC);
  std::vector<ShapeRef*> sh; for(auto&c:rs){ Rectangle rr(Point(c.x,c.y),Point(c.x+c.w,c.y+c.h)); sh.push_back(new ShapeRef(router,rr)); }
  // endpoints: distinct free points on a 10-grid at least 15 from shapes
  std::vector<Pt> used; auto freept=[&](){ for(;;){ Pt p{double(nx()%(gx*20+1))*10, double(nx()%(gy*16+1))*10}; bool ok=true; for(auto&o:rs) if(p.x>=o.x-15&&p.x<=o.x+o.w+15&&p.y>=o.y-15&&p.y<=o.y+o.h+15) ok=false; for(auto&u:used) if(fabs(u.x-p.x)<25&&fabs(u.y-p.y)<25) ok=false; if(ok){ used.push_back(p); return p;} } };
  int m=2+nx()%4; std::vector<ConnRef*> cs; std::vector<std::pair<Pt,Pt>> ends; for(int i=0;i<m;i++){ Pt a=freept(), b=freept(); ends.push_back({a,b}); cs.push_back(new ConnRef(router,ConnEnd(Point(a.x,a.y)),ConnEnd(Point(b.x,b.y)))); }
  router->processTransaction(); int bad=0;
  if(0){ printf("seed %llu existsOrthogonalSegmentOverlap nd=%g opts %d%d%d\n",(unsigned long long)seed,nd,optA,optB,optC); bad++; }
  for(int i=0;i<m;i++){ const PolyLine& d=cs[i]->displayRoute(); PolyLine raw=cs[i]->route().simplify(); if(!optA && (d.ps.front().x!=ends[i].first.x||d.ps.front().y!=ends[i].first.y||d.ps.back().x!=ends[i].second.x||d.ps.back().y!=ends[i].second.y)){ printf("seed %llu conn %d endpoint moved\n",(unsigned long long)seed,i); bad++; } if(d.size()>raw.size()){ printf("seed %llu conn %d segments added %zu>%zu\n",(unsigned long long)seed,i,d.size(),raw.size()); bad++; }
    for(size_t k=1;k<d.size();k++){ if(d.ps[k].x!=d.ps[k-1].x && d.ps[k].y!=d.ps[k-1].y){ printf("seed %llu conn %d diagonal\n",(unsigned long long)seed,i); bad++; } double mx=(d.ps[k].x+d.ps[k-1].x)/2,my=(d.ps[k].y+d.ps[k-1].y)/2; for(auto&o:rs) if(mx>o.x&&mx<o.x+o.w&&my>o.y&&my<o.y+o.h){ printf("seed %llu conn %d through shape\n",(unsigned long long)seed,i); bad++; } } }
  // independent overlap check + min separation of parallel overlapping-in-extent segments
  for(int i=0;i<m;i++) for(int j=i+1;j<m;j++){ const PolyLine&a=cs[i]->displayRoute(), &b=cs[j]->displayRoute(); for(size_t p=1;p<a.size();p++) for(size_t q=1;q<b.size();q++){ Point a0=a.ps[p-1],a1=a.ps[p],b0=b.ps[q-1],b1=b.ps[q]; for(int dim=0;dim<2;dim++){ int o=1-dim; // segments constant in dim
          if(a0[dim]==a1[dim]&&b0[dim]==b1[dim]&&a0[o]!=a1[o]&&b0[o]!=b1[o]){ double lo=std::max(std::min(a0[o],a1[o]),std::min(b0[o],b1[o])), hi=std::min(std::max(a0[o],a1[o]),std::max(b0[o],b1[o])); if(hi-lo>1e-9){ double sep=fabs(a0[dim]-b0[dim]); bool aEnd=(p==1||p==a.size()-1), bEnd=(q==1||q==b.size()-1); double c0=a0[dim]; auto chan=[&](Point s0,Point s1){ double elo=std::min(s0[o],s1[o]), ehi=std::max(s0[o],s1[o]); double fl=1e9, fh=1e9; for(auto&oo:rs){ double olo=o?oo.y:oo.x, ohi=o?oo.y+oo.h:oo.x+oo.w; double plo=dim?oo.y:oo.x, phi=dim?oo.y+oo.h:oo.x+oo.w; if(ohi<elo||olo>ehi) continue; if(phi<=c0) fl=std::min(fl,c0-phi); else if(plo>=c0) fh=std::min(fh,plo-c0); else { fl=0; fh=0; } } return (fl>0&&fh>0&&(fl+fh)>=(m+1)*nd); }; bool wide=(!aEnd&&chan(a0,a1))||(!bEnd&&chan(b0,b1)); if(sep<1e-9 && !(aEnd&&bEnd) && wide){ printf("seed %llu conns %d,%d collinear overlap len %g nd=%g opts %d%d%d\n",(unsigned long long)seed,i,j,hi-lo,nd,optA,optB,optC); bad++; } } } } } }
  if(bad&&verbose){ for(int i=0;i<m;i++){ printf("conn %d raw:",i); for(auto&q:cs[i]->route().ps) printf(" (%g,%g)",q.x,q.y); printf("\n   disp:"); for(auto&q:cs[i]->displayRoute().ps) printf(" (%g,%g)",q.x,q.y); printf("\n"); } for(auto&o:rs) printf(" rect %g %g %g %g\n",o.x,o.y,o.x+o.w,o.y+o.h); }
  delete router; return bad?1:0; }
