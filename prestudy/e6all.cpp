#include "libcola/cola.h"
#include <cstdio>
#include <cstdlib>
#include <cstdint>
#include <cmath>
#include <vector>
#include <set>
using namespace cola;
static uint64_t r=1; static uint64_t nx(){ r^=r<<13; r^=r>>7; r^=r<<17; return r; }
struct StopAt: TestConvergence { int k; int calls=0; StopAt(int k):TestConvergence(1e-4,100),k(k){} bool operator()(const double s,std::valarray<double>&X,std::valarray<double>&Y){ calls++; if(calls>=k) return true; return TestConvergence::operator()(s,X,Y);} };
int main(int argc,char**argv){ uint64_t seed=atoll(argv[1]); r=seed*2654435761u+55221;
  int n=4+nx()%9; vpsc::Rectangles rs; std::vector<double> W[2]; // witness centre positions per dim
  std::vector<double> hw,hh; for(int i=0;i<n;i++){ double w=10+(nx()%4)*10,h=10+(nx()%3)*10; double x=double(nx()%300),y=double(nx()%300); rs.push_back(new vpsc::Rectangle(x,x+w,y,y+h)); hw.push_back(w/2); hh.push_back(h/2); W[0].push_back(double(nx()%60)*10); W[1].push_back(double(nx()%60)*10); }
  std::vector<Edge> es; for(int i=1;i<n;i++) if(nx()%4) es.push_back({nx()%i,i});
  CompoundConstraints ccs; std::set<CompoundConstraint*> mine;
  struct Sep{int dim; unsigned l,r; double g; bool eq; CompoundConstraint*cc;}; std::vector<Sep> seps;
  struct Al{int dim; std::vector<std::pair<unsigned,double>> sh; AlignmentConstraint* ac;}; std::vector<Al> als;
  struct Bd{int dim; std::vector<std::pair<unsigned,double>> sh; BoundaryConstraint* bc;}; std::vector<Bd> bds;
  struct FR{std::vector<unsigned> ids; std::vector<double> dx,dy; CompoundConstraint*cc;}; std::vector<FR> frs;
  struct AP{int dim; AlignmentConstraint*a,*b; double sep; bool eq; CompoundConstraint*cc;}; std::vector<AP> aps;
  std::set<int> used; // nodes already tied by an equality-type constraint in a dim: key dim*1000+node
  // fixed relative first (witness must follow initial offsets)
  if(nx()%3==0 && n>=4){ unsigned a=nx()%n,b=nx()%n,c=nx()%n; std::set<unsigned> s{a,b,c}; if(s.size()>=2){ std::vector<unsigned> ids(s.begin(),s.end()); FR f; f.ids=ids; for(unsigned id:ids){ f.dx.push_back(rs[id]->getCentreX()-rs[ids[0]]->getCentreX()); f.dy.push_back(rs[id]->getCentreY()-rs[ids[0]]->getCentreY()); W[0][id]=W[0][ids[0]]+f.dx.back(); W[1][id]=W[1][ids[0]]+f.dy.back(); used.insert(id); used.insert(1000+id);} f.cc=new FixedRelativeConstraint(rs,ids,false); ccs.push_back(f.cc); frs.push_back(f);} }
  // alignments: choose groups of nodes not yet used in that dim; set witness to common line + offsets
  int nal=nx()%4; for(int k=0;k<nal;k++){ int dim=nx()%2; std::vector<unsigned> g; for(int i=0;i<n;i++) if(!used.count(dim*1000+i) && nx()%3==0) g.push_back(i); if(g.size()<2) continue; Al al; al.dim=dim; al.ac=new AlignmentConstraint((vpsc::Dim)dim); double pos=double(nx()%60)*10; for(unsigned id:g){ double off=double(int(nx()%3)-1)*5; al.sh.push_back({id,off}); al.ac->addShape(id,off); W[dim][id]=pos+off; used.insert(dim*1000+id);} ccs.push_back(al.ac); als.push_back(al); }
  // distribution / multiseparation between alignments of the same dim: adjust witness lines to be equally spaced
  for(int dim=0;dim<2;dim++){ std::vector<int> idx; for(size_t k=0;k<als.size();k++) if(als[k].dim==dim) idx.push_back(k); if(idx.size()>=2 && nx()%2){ bool dist=nx()%2; double sep=double(1+nx()%5)*20; double base=double(nx()%20)*10; // move alignment lines to base+k*sep(+extra for multisep ineq)
      for(size_t q=0;q<idx.size();q++){ double pos=base+q*sep+((!dist)?double(nx()%3)*10*q:0); for(auto&p:als[idx[q]].sh) W[dim][p.first]=pos+p.second; }
      if(dist){ DistributionConstraint* dc=new DistributionConstraint((vpsc::Dim)dim); dc->setSeparation(sep); for(size_t q=1;q<idx.size();q++){ dc->addAlignmentPair(als[idx[q-1]].ac,als[idx[q]].ac); aps.push_back({dim,als[idx[q-1]].ac,als[idx[q]].ac,sep,true,dc}); } ccs.push_back(dc); }
      else { MultiSeparationConstraint* mc=new MultiSeparationConstraint((vpsc::Dim)dim,sep,false); for(size_t q=1;q<idx.size();q++){ mc->addAlignmentPair(als[idx[q-1]].ac,als[idx[q]].ac); aps.push_back({dim,als[idx[q-1]].ac,als[idx[q]].ac,sep,false,mc}); } ccs.push_back(mc); } } }
  // separations consistent with witness
  int ns=nx()%5; for(int k=0;k<ns;k++){ unsigned a=nx()%n,b=nx()%n; if(a==b) continue; int dim=nx()%2; if(W[dim][a]>W[dim][b]) std::swap(a,b); double d=W[dim][b]-W[dim][a]; bool eq=(nx()%6==0); double g=eq?d:floor(d*double(nx()%11)/10.0); Sep s{dim,a,b,g,eq,new SeparationConstraint((vpsc::Dim)dim,a,b,g,eq)}; ccs.push_back(s.cc); seps.push_back(s); }
  // boundaries consistent with witness
  int nb=nx()%3; for(int k=0;k<nb;k++){ int dim=nx()%2; double pos=double(nx()%60)*10; Bd b; b.dim=dim; b.bc=new BoundaryConstraint((vpsc::Dim)dim); for(int i=0;i<n;i++) if(nx()%3==0){ double d=W[dim][i]-pos; if(d==0) continue; double off=(d<0)?-floor(-d*double(1+nx()%10)/10.0):floor(d*double(1+nx()%10)/10.0); if(off==0) continue; b.sh.push_back({(unsigned)i,off}); b.bc->addShape(i,off);} if(b.sh.empty()){ delete b.bc; continue;} ccs.push_back(b.bc); bds.push_back(b); }
  StopAt done(1+nx()%12); ConstrainedFDLayout alg(rs,es,50,StandardEdgeLengths,&done); alg.setConstraints(ccs);
  UnsatisfiableConstraintInfos ux,uy; alg.setUnsatisfiableConstraintInfo(&ux,&uy); bool mf=nx()%2;
  int bad=0; try{ if(mf) alg.makeFeasible(); alg.run(); } catch(vpsc::CriticalFailure&f){ printf("seed %llu CriticalFailure %s\n",(unsigned long long)seed,f.what().c_str()); return 3; } catch(...){ printf("seed %llu exception\n",(unsigned long long)seed); return 3; }
  std::set<CompoundConstraint*> reported; for(auto u:ux) reported.insert(u->cc); for(auto u:uy) reported.insert(u->cc);
  auto P=[&](int dim,unsigned i){ return dim?rs[i]->getCentreY():rs[i]->getCentreX(); };
  const double T=1e-4;
  for(auto&s:seps){ if(reported.count(s.cc)) continue; double l=P(s.dim,s.l), rr=P(s.dim,s.r); if(l+s.g>rr+T||(s.eq&&fabs(l+s.g-rr)>T)){ printf("seed %llu separation violated (%g + %g vs %g eq=%d) mf=%d it=%d unsat=%zu\n",(unsigned long long)seed,l,s.g,rr,s.eq,mf,done.calls,reported.size()); bad++; } }
  for(auto&a:als){ if(reported.count(a.ac)) continue; double p0=P(a.dim,a.sh[0].first)-a.sh[0].second; for(auto&p:a.sh){ double q=P(a.dim,p.first)-p.second; if(fabs(q-p0)>T){ printf("seed %llu alignment violated (%g vs %g) mf=%d unsat=%zu\n",(unsigned long long)seed,q,p0,mf,reported.size()); bad++; } } }
  for(auto&ap:aps){ if(reported.count(ap.cc)||reported.count(ap.a)||reported.count(ap.b)) continue; Al*A=nullptr,*B=nullptr; for(auto&a:als){ if(a.ac==ap.a) A=&a; if(a.ac==ap.b) B=&a; } double pa=P(A->dim,A->sh[0].first)-A->sh[0].second, pb=P(B->dim,B->sh[0].first)-B->sh[0].second; if(pa+ap.sep>pb+T||(ap.eq&&fabs(pa+ap.sep-pb)>T)){ printf("seed %llu %s violated (%g + %g vs %g) mf=%d unsat=%zu\n",(unsigned long long)seed,ap.eq?"distribution":"multiseparation",pa,ap.sep,pb,mf,reported.size()); bad++; } }
  for(auto&b:bds){ if(reported.count(b.bc)) continue; double lo=-1e18,hi=1e18; for(auto&p:b.sh){ double x=P(b.dim,p.first); if(p.second<0) hi=std::min(hi,x+(-p.second)); } // nodes left of boundary: x + |off| <= pos ; right: pos + off <= x
     double maxLeft=-1e18,minRight=1e18; for(auto&p:b.sh){ double x=P(b.dim,p.first); if(p.second<0) maxLeft=std::max(maxLeft,x-p.second); else minRight=std::min(minRight,x-p.second); } if(maxLeft>minRight+T){ printf("seed %llu boundary violated (%g > %g) mf=%d unsat=%zu\n",(unsigned long long)seed,maxLeft,minRight,mf,reported.size()); bad++; } }
  for(auto&f:frs){ if(reported.count(f.cc)) continue; for(size_t k=0;k<f.ids.size();k++){ double dx=rs[f.ids[k]]->getCentreX()-rs[f.ids[0]]->getCentreX(), dy=rs[f.ids[k]]->getCentreY()-rs[f.ids[0]]->getCentreY(); if(fabs(dx-f.dx[k])>T||fabs(dy-f.dy[k])>T){ printf("seed %llu fixedrelative violated mf=%d unsat=%zu\n",(unsigned long long)seed,mf,reported.size()); bad++; } } }
  for(int i=0;i<n;i++) if(!std::isfinite(rs[i]->getCentreX())||!std::isfinite(rs[i]->getCentreY())||fabs(rs[i]->width()-2*hw[i])>1e-9||fabs(rs[i]->height()-2*hh[i])>1e-9){ printf("seed %llu size/finite\n",(unsigned long long)seed); bad++; }
  printf("seed %llu kinds: sep %zu al %zu ap %zu bd %zu fr %zu reported %zu bad %d\n",(unsigned long long)seed,seps.size(),als.size(),aps.size(),bds.size(),frs.size(),reported.size(),bad);
  return bad?1:0; }
