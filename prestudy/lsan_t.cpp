#include <cstdio>
#include <cstdlib>
#include <unistd.h>
#include <sys/wait.h>
#include <thread>
extern "C" int __lsan_do_recoverable_leak_check(void);
__attribute__((noinline)) void leaky(int n){ for(int i=0;i<n;i++){ char* volatile p=(char*)malloc(100+i); p[0]=1; } }
__attribute__((noinline)) void clobber(){ volatile char buf[4096]; for(int i=0;i<4096;i++) buf[i]=0; }
int main(int argc,char**argv){ int mode=atoi(argv[1]); if(mode==0){ leaky(20); clobber(); int r=__lsan_do_recoverable_leak_check(); printf("direct: leaks=%d\n",r); return 0; }
  pid_t p=fork(); if(p==0){ std::thread t([]{ leaky(20); }); t.join(); clobber(); int r=__lsan_do_recoverable_leak_check(); printf("forked child: leaks=%d\n",r); fflush(stdout); _exit(0);} int st; waitpid(p,&st,0); printf("child status %d\n",st); return 0; }
