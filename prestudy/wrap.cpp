#include "libavoid/libavoid.h"
#include "libcola/cola.h"
#include <cstdio>
#include <cerrno>
#include <ctime>
#include <cstring>
extern "C" { FILE* __real_fopen(const char*,const char*); clock_t __real_clock(void);
static int failOpen=0; static int opens=0; static long simclk=1000; static int clkcalls=0; static char sink[1<<20]; 
FILE* __wrap_fopen(const char*path,const char*mode){ opens++; if(failOpen){ errno=ENOSPC; return nullptr; } return fmemopen(sink,sizeof sink,mode); }
clock_t __wrap_clock(void){ clkcalls++; simclk+=3000; return simclk; } }
struct MyRouter: Avoid::Router { unsigned lastElapsed=0; MyRouter(unsigned f):Avoid::Router(f){} bool shouldContinueTransactionWithProgress(unsigned el,unsigned ph,unsigned tot,double prop){ lastElapsed=el; return true; } };
int main(){ MyRouter* r=new MyRouter(Avoid::OrthogonalRouting); Avoid::Rectangle rr(Avoid::Point(0,0),Avoid::Point(50,40)); new Avoid::ShapeRef(r,rr); new Avoid::ConnRef(r,Avoid::ConnEnd(Avoid::Point(-20,20)),Avoid::ConnEnd(Avoid::Point(90,20))); r->processTransaction(); printf("clock calls %d last elapsed ms %u\n",clkcalls,r->lastElapsed);
  r->outputInstanceToSVG("whatever"); printf("opens %d sink starts: %.40s\n",opens,sink); failOpen=1; r->outputInstanceToSVG("whatever2"); r->outputDiagramText("x"); printf("opens %d (failed ones survived)\n",opens); delete r; return 0; }
