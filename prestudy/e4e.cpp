#include <cstddef>
#include <cstring>
#include "libvpsc/solve_VPSC.h"
#include "libvpsc/variable.h"
#include "libvpsc/constraint.h"
#include "libvpsc/blocks.h"
#include "libvpsc/block.h"
#include <cstdio>
#include <vector>
using namespace vpsc;
struct Spy: IncSolver { Spy(Variables const&v,Constraints const&c):IncSolver(v,c){} double cost(){return bs->cost();} void dump(const char*t){ printf("%s cost=%g blocks=%zu:",t,bs->cost(),bs->size()); for(size_t i=0;i<bs->size();i++){ Block*b=bs->at(i); printf(" {"); for(auto v:*b->vars) printf("v%d@%g ",v->id,v->finalPosition); printf("}"); } printf("\n"); } };
int main(){ Variables vs; double d[]={6,2,8,-5}, w[]={1,1,2,1}; for(int i=0;i<4;i++) vs.push_back(new Variable(i,d[i],w[i]));
 Constraints cs; auto add=[&](int l,int r,double g){ cs.push_back(new Constraint(vs[l],vs[r],g)); return cs.back(); };
 add(1,3,1); add(0,1,1); add(0,3,2);
 Spy s(vs,cs); s.solve(); s.dump("after solve1");
 for(auto c: {add(0,1,1), add(1,2,2), add(0,1,1)}) s.addConstraint(c);
 vs[2]->desiredPosition=-17;
 for(int i=0;i<5;i++){ s.satisfy(); s.dump("satisfy"); for(size_t k=0;k<cs.size();k++) printf("   c%zu active=%d lm=%g slack=%g\n",k,cs[k]->active,cs[k]->lm,cs[k]->slack()); }
}
