#include "libavoid/libavoid.h"
#include <cstdio>
#include <cstdlib>
#include <cstdint>
#include <cmath>
#include <vector>
#include <queue>
#include <map>
#include <set>
#include <algorithm>
using namespace Avoid;
static uint64_t r=1; static uint64_t nx(){ r^=r<<13; r^=r>>7; r^=r<<17; return r; }
struct R{double x,y,w,h;}; struct Pt{double x,y;};
static bool overlap(const R&a,const R&b,double m){ return a.x-m<b.x+b.w && b.x-m<a.x+a.w && a.y-m<b.y+b.h && b.y-m<a.y+a.h; }
int main(int argc,char**argv){ uint64_t seed=atoll(argv[1]); double pen=atof(argv[2]); int verbose=argc>3; r=seed*2654435761u+777;
  std::vector<R> rs; int n=1+nx()%7; for(int i=0;i<n;i++){ for(int t=0;t<50;t++){ R c{double(nx()%40)*10,double(nx()%30)*10,double(20+(nx()%8)*10),double(20+(nx()%6)*10)}; bool ok=true; for(auto&o:rs) if(overlap(c,o,5)) ok=false; if(ok){ rs.push_back(c); break;} } } n=rs.size();
  Router* router=new Router(OrthogonalRouting); router->setRoutingParameter(segmentPenalty,pen); router->setRoutingParameter(idealNudgingDistance,0);
  for(auto&c:rs){ Rectangle rr(Point(c.x,c.y),Point(c.x+c.w,c.y+c.h)); new ShapeRef(router,rr);} 
  auto freept=[&](){ for(;;){ Pt p{double(nx()%45)*10-15, double(nx()%35)*10-15}; bool ok=true; for(auto&o:rs) if(p.x>=o.x-1&&p.x<=o.x+o.w+1&&p.y>=o.y-1&&p.y<=o.y+o.h+1) ok=false; if(ok) return p; } };
  int m=1+nx()%3; std::vector<std::pair<Pt,Pt>> ends; std::vector<std::pair<unsigned,unsigned>> dirs; std::vector<ConnRef*> cs; for(int i=0;i<m;i++){ Pt a=freept(),b=freept(); if(a.x==b.x&&a.y==b.y){ b.x+=5; } ends.push_back({a,b}); unsigned da=(nx()%3==0)?15:(1+nx()%15), db=(nx()%3==0)?15:(1+nx()%15); dirs.push_back({da,db}); cs.push_back(new ConnRef(router,ConnEnd(Point(a.x,a.y),da),ConnEnd(Point(b.x,b.y),db))); }
  router->processTransaction(); int bad=0;
  for(int ci=0;ci<m;ci++){
    std::set<double> X,Y; for(auto&o:rs){ X.insert(o.x); X.insert(o.x+o.w); Y.insert(o.y); Y.insert(o.y+o.h);} X.insert(ends[ci].first.x); X.insert(ends[ci].second.x); Y.insert(ends[ci].first.y); Y.insert(ends[ci].second.y);
    std::vector<double> xs(X.begin(),X.end()), ys(Y.begin(),Y.end()); int nxs=xs.size(), nys=ys.size();
    auto inside=[&](double x,double y){ for(auto&o:rs) if(x>o.x&&x<o.x+o.w&&y>o.y&&y<o.y+o.h) return true; return false; };
    auto id=[&](int i,int j){ return i*nys+j; };
    auto idx=[&](const std::vector<double>&v,double a){ return int(std::lower_bound(v.begin(),v.end(),a)-v.begin()); };
    int si=idx(xs,ends[ci].first.x), sj=idx(ys,ends[ci].first.y), ti=idx(xs,ends[ci].second.x), tj=idx(ys,ends[ci].second.y);
    // state: (i,j,dir) dir 0..3 (E,W,S,N), 4=start
    typedef std::tuple<double,int,int,int> QE; std::priority_queue<QE,std::vector<QE>,std::greater<QE>> pq; std::map<std::tuple<int,int,int>,double> dist; pq.push({0,si,sj,4}); dist[{si,sj,4}]=0; double best=-1; int di[4]={1,-1,0,0}, dj[4]={0,0,1,-1};
    while(!pq.empty()){ auto [d,i,j,dir]=pq.top(); pq.pop(); if(dist[{i,j,dir}]<d-1e-12) continue; if(i==ti&&j==tj){ best=d; break;} for(int k=0;k<4;k++){ int a=i+di[k], b=j+dj[k]; if(a<0||b<0||a>=nxs||b>=nys) continue; if(dir<4 && (k^1)==dir) continue; { unsigned flag[4]={8,4,2,1}; if(dir==4 && !(dirs[ci].first & flag[k])) continue; if(a==ti&&b==tj){ unsigned arr[4]={4,8,1,2}; /* moving E arrives from left side */ if(!(dirs[ci].second & arr[k])) continue; } }
        double mx=(xs[i]+xs[a])/2, my=(ys[j]+ys[b])/2; if(inside(mx,my)) continue; double c=fabs(xs[a]-xs[i])+fabs(ys[b]-ys[j]); if(dir<4&&k!=dir) c+=pen; auto key=std::make_tuple(a,b,k); auto it=dist.find(key); if(it==dist.end()||it->second>d+c+1e-12){ dist[key]=d+c; pq.push({d+c,a,b,k}); } } }
    PolyLine rt=cs[ci]->route().simplify(); double len=0; int bends=(int)rt.size()-2; for(size_t i=1;i<rt.size();i++){ double dx=fabs(rt.ps[i].x-rt.ps[i-1].x), dy=fabs(rt.ps[i].y-rt.ps[i-1].y); if(dx!=0&&dy!=0){ printf("seed %llu conn %d non-orthogonal segment\n",(unsigned long long)seed,ci); bad++; } len+=dx+dy; double mx=(rt.ps[i].x+rt.ps[i-1].x)/2,my=(rt.ps[i].y+rt.ps[i-1].y)/2; if(inside(mx,my)){ printf("seed %llu conn %d crosses obstacle\n",(unsigned long long)seed,ci); bad++; } }
    double implcost=len+pen*bends; if(best>=0 && fabs(implcost-best)>1e-6){ printf("seed %llu conn %d impl cost %.6f (len %.6f bends %d) oracle %.6f\n",(unsigned long long)seed,ci,implcost,len,bends,best); bad++; if(verbose){ printf(" dirs src=%u dst=%u src=(%g,%g) dst=(%g,%g)\n",dirs[ci].first,dirs[ci].second,ends[ci].first.x,ends[ci].first.y,ends[ci].second.x,ends[ci].second.y); printf(" impl:"); for(auto&q:rt.ps) printf(" (%g,%g)",q.x,q.y); printf("\n"); for(auto&o:rs) printf("  rect %g %g %g %g\n",o.x,o.y,o.x+o.w,o.y+o.h);} }
  }
  delete router; return bad?1:0; }
