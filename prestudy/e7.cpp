#include "libavoid/libavoid.h"
#include <cstdio>
#include <cstdlib>
#include <cstdint>
#include <cmath>
#include <vector>
#include <map>
using namespace Avoid;
static uint64_t r=1; static uint64_t nx(){ r^=r<<13; r^=r>>7; r^=r<<17; return r; }
struct R{double x,y,w,h;};
static bool overlap(const R&a,const R&b,double m){ return a.x-m<b.x+b.w && b.x-m<a.x+a.w && a.y-m<b.y+b.h && b.y-m<a.y+a.h; }
struct PinSpec{ unsigned cls; double xo,yo; ConnDirFlags dir; };
int main(int argc,char**argv){ uint64_t seed=atoll(argv[1]); int ortho=atoi(argv[2]); double INS=atof(argv[3]); r=seed*2654435761u+555;
  std::vector<R> rs; int n=2+nx()%5; for(int i=0;i<n;i++){ for(int t=0;t<50;t++){ R c{double(nx()%40)*10,double(nx()%30)*10,double(30+(nx()%6)*10),double(30+(nx()%5)*10)}; bool ok=true; for(auto&o:rs) if(overlap(c,o,30)) ok=false; if(ok){ rs.push_back(c); break;} } } n=rs.size(); if(n<2) return 0;
  Router* router=new Router(ortho?OrthogonalRouting:PolyLineRouting); router->setRoutingParameter(segmentPenalty,ortho?50:0);
  std::vector<ShapeRef*> sh; std::vector<PinSpec> pins={{1,ATTACH_POS_LEFT,0.5,ConnDirLeft},{1,ATTACH_POS_RIGHT,0.5,ConnDirRight},{1,0.5,ATTACH_POS_TOP,ConnDirUp},{1,0.5,ATTACH_POS_BOTTOM,ConnDirDown},{2,0.5,0.5,ConnDirAll},{3,0.25,ATTACH_POS_TOP,ConnDirUp}};
  for(auto&c:rs){ Rectangle rr(Point(c.x,c.y),Point(c.x+c.w,c.y+c.h)); ShapeRef*s=new ShapeRef(router,rr); sh.push_back(s); for(auto&p:pins) new ShapeConnectionPin(s,p.cls,p.xo,p.yo,true,INS,p.dir); }
  struct CE{int s; unsigned cls;}; std::vector<std::pair<CE,CE>> ends; std::vector<ConnRef*> cs; std::map<std::pair<int,unsigned>,int> use; int m=1+nx()%5;
  for(int i=0;i<m;i++){ int a=nx()%n,b=nx()%n; if(a==b) b=(a+1)%n; unsigned ca=1+nx()%3, cb=1+nx()%3; auto cap=[&](unsigned c){ return c==1?4:(c==2?100:1); }; if(use[{a,ca}]>=cap(ca)||use[{b,cb}]>=cap(cb)) continue; use[{a,ca}]++; use[{b,cb}]++; ends.push_back({{a,ca},{b,cb}}); cs.push_back(new ConnRef(router,ConnEnd(sh[a],ca),ConnEnd(sh[b],cb))); }
  int bad=0; int steps=1+nx()%4;
  for(int st=0;st<steps;st++){
    if(st>0){ int i=nx()%n; R c=rs[i]; if(nx()%2){ c.x+=double(int(nx()%11)-5)*10; c.y+=double(int(nx()%11)-5)*10; } else { c.w=30+(nx()%6)*10; c.h=30+(nx()%5)*10; } bool ok=true; for(int j=0;j<n;j++) if(j!=i&&overlap(c,rs[j],30)) ok=false; if(ok){ rs[i]=c; Rectangle rr(Point(c.x,c.y),Point(c.x+c.w,c.y+c.h)); router->moveShape(sh[i],rr); } }
    router->processTransaction();
    std::map<std::tuple<int,unsigned,int>,int> pinusers;
    for(size_t k=0;k<cs.size();k++){ const PolyLine& d=cs[k]->displayRoute(); if(d.size()<2){ printf("seed %llu step %d conn %zu route too short\n",(unsigned long long)seed,st,k); bad++; continue; }
      for(int e=0;e<2;e++){ CE ce=e?ends[k].second:ends[k].first; Point p=e?d.ps.back():d.ps.front(); Point q=e?d.ps[d.size()-2]:d.ps[1]; const R&o=rs[ce.s]; int found=-1; for(size_t pi=0;pi<pins.size();pi++){ if(pins[pi].cls!=ce.cls) continue; double px=o.x+pins[pi].xo*o.w, py=o.y+pins[pi].yo*o.h; if(pins[pi].xo==0) px+=INS; if(pins[pi].xo==1) px-=INS; if(pins[pi].yo==0) py+=INS; if(pins[pi].yo==1) py-=INS; if(fabs(px-p.x)<1e-9&&fabs(py-p.y)<1e-9){ found=pi; break; } }
        if(found<0){ printf("seed %llu step %d conn %zu end %d at (%g,%g) not on a class-%u pin of shape %d\n",(unsigned long long)seed,st,k,e,p.x,p.y,ce.cls,ce.s); bad++; continue; }
        pinusers[{ce.s,ce.cls,found}]++;
        if(ortho && pins[found].dir!=ConnDirAll){ ConnDirFlags dir=pins[found].dir; bool ok=(dir==ConnDirLeft&&q.x<p.x&&q.y==p.y)||(dir==ConnDirRight&&q.x>p.x&&q.y==p.y)||(dir==ConnDirUp&&q.y<p.y&&q.x==p.x)||(dir==ConnDirDown&&q.y>p.y&&q.x==p.x); if(!ok){ printf("seed %llu step %d conn %zu end %d leaves pin in wrong direction (%g,%g)->(%g,%g) dir %u\n",(unsigned long long)seed,st,k,e,p.x,p.y,q.x,q.y,dir); bad++; } } } }
    for(auto&kv:pinusers){ int pi=std::get<2>(kv.first); if(pins[pi].dir!=ConnDirAll && kv.second>1){ printf("seed %llu step %d exclusive pin used %d times\n",(unsigned long long)seed,st,kv.second); bad++; } }
  }
  delete router; return bad?1:0; }
