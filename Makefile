# Builds the five adaptagrams libraries from /repo's *working tree* plus the
# simulator, in two configurations:
#   plain : SimAlloc (seeded fixed arena), -O1
#   san   : ASan + UBSan (recoverable) + LSan, sanitizer allocator kept
# Incremental (-MMD); a change in /repo triggers exactly the recompiles needed.
REPO   ?= /repo
B      ?= build
CXX    := g++
GUARD  := -DADAPTAGRAMS_VERIF
LIBFLAGS := -std=gnu++11 -g1 -DUSE_ASSERT_EXCEPTIONS $(GUARD) -I$(REPO)/cola -w
SIMFLAGS := -std=gnu++17 -g1 -DUSE_ASSERT_EXCEPTIONS $(GUARD) -I$(REPO)/cola -Isim -fno-access-control -Wall -Wno-unused-function -Wno-unused-variable -Wno-sign-compare -Wno-deprecated-declarations -Wno-unused-but-set-variable
OPT_plain := -O1 -fno-pie -no-pie
OPT_san   := -O1 -fsanitize=address,undefined -fsanitize-recover=undefined -fno-omit-frame-pointer -DSIM_SAN
WRAPS  := -Wl,--wrap=clock -Wl,--wrap=fopen -Wl,--wrap=time

LIBSRC := $(sort $(wildcard $(REPO)/cola/libvpsc/*.cpp $(REPO)/cola/libcola/*.cpp $(REPO)/cola/libavoid/*.cpp $(REPO)/cola/libtopology/*.cpp $(REPO)/cola/libdialect/*.cpp))
SIMSRC := $(sort $(wildcard sim/*.cpp))

define CFG
LIBOBJ_$(1) := $$(patsubst $(REPO)/cola/%.cpp,$(B)/$(1)/lib/%.o,$$(LIBSRC))
SIMOBJ_$(1) := $$(patsubst sim/%.cpp,$(B)/$(1)/sim/%.o,$$(SIMSRC))
$(B)/$(1)/lib/%.o: $(REPO)/cola/%.cpp
	@mkdir -p $$(dir $$@)
	$(CXX) $(LIBFLAGS) $$(OPT_$(1)) -MMD -MP -c $$< -o $$@
$(B)/$(1)/sim/%.o: sim/%.cpp
	@mkdir -p $$(dir $$@)
	$(CXX) $(SIMFLAGS) $$(OPT_$(1)) -MMD -MP -c $$< -o $$@
$(B)/$(1)/libadapt.a: $$(LIBOBJ_$(1))
	@rm -f $$@
	ar rcs $$@ $$^
$(B)/$(1)/adaptasim: $$(SIMOBJ_$(1)) $(B)/$(1)/libadapt.a
	$(CXX) $$(OPT_$(1)) -o $$@ $$(SIMOBJ_$(1)) $(B)/$(1)/libadapt.a $(WRAPS) -lpthread
-include $$(LIBOBJ_$(1):.o=.d) $$(SIMOBJ_$(1):.o=.d)
endef
$(eval $(call CFG,plain))
$(eval $(call CFG,san))

.PHONY: all plain san libs clean
all: plain san
plain: $(B)/plain/adaptasim
san: $(B)/san/adaptasim
libs: $(B)/plain/libadapt.a $(B)/san/libadapt.a
clean:
	rm -rf $(B)
