#!/bin/bash
# usage: tools/soak.sh "<props>" "<seeds>" [tier]   -> one line per (prop, seed): exit code and VIOLATION lines
cd "$(dirname "$0")/.."
make -s -j16 all >/dev/null 2>&1
for s in $2; do for p in $1; do
  out=$(VERIF_SEED=$s ./check $p --tier ${3:-quick} 2>&1); rc=$?
  echo "seed=$s prop=$p rc=$rc $(echo "$out" | grep -c KNOWN-FINDING) known; $(echo "$out" | grep VIOLATION | head -3 | tr '\n' ' ')"
  echo "$out" | grep -A1 VIOLATION | grep "clause=" | head -3
done; done
