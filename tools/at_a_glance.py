#!/usr/bin/env python3
"""tools/at_a_glance.py: regenerate the table of DESIGN.md section 10.0 from known_findings.txt and seeded/*/meta.json"""
import json, glob, re, collections
ROOT = "/verif"
openk = collections.Counter(); fixed = collections.Counter()
for l in open(ROOT + "/known_findings.txt"):
    m = re.match(r"(open|fixed): property=(C\d+)", l)
    if m: (openk if m.group(1) == "open" else fixed)[m.group(2)] += 1
tried = collections.Counter(); missed = collections.Counter(); still = collections.Counter()
for d in sorted(glob.glob(ROOT + "/seeded/S*")):
    m = json.load(open(d + "/meta.json")); p = m["property"][:3]      # "C14, C19 (...)" counts for the first property named
    tried[p] += 1
    if m.get("missed_before"): missed[p] += 1
    if m.get("caught_by", "").upper().startswith("NOT CAUGHT"): still[p] += 1
props = ["C%02d" % i for i in (1, 2, 3, 4, 5, 6, 7, 8, 9, 10, 11, 12, 13, 14, 15, 19, 20)]
rows = ["| property | open known findings | fix commits | seeded changes tried | of these missed at first | still not caught (quick tier) |", "|---|---|---|---|---|---|"]
for p in props: rows.append("| %s | %d | %d | %d | %d | %d |" % (p, openk[p], fixed[p], tried[p], missed[p], still[p]))
rows.append("| total | %d | %d | %d | %d | %d |" % (sum(openk[p] for p in props), sum(fixed[p] for p in props), sum(tried[p] for p in props), sum(missed[p] for p in props), sum(still[p] for p in props)))
s = open(ROOT + "/DESIGN.md").read()
i = s.index("| property | open known findings |"); j = s.index("\n\n", i)
s = s[:i] + "\n".join(rows) + s[j:]
open(ROOT + "/DESIGN.md", "w").write(s)
print("\n".join(rows))
