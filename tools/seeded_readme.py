#!/usr/bin/env python3
"""writes seeded/README.md from seeded/*/meta.json"""
import json, glob, os
rows = []
controls = []
for m in sorted(glob.glob("/verif/seeded/*/meta.json")):
    d = json.load(open(m)); d["id"] = os.path.basename(os.path.dirname(m))
    (controls if "kind" in d else rows).append(d)
with open("/verif/seeded/README.md", "w") as f:
    f.write("# Seeded changes\n\nEach directory holds a change to mjwybrow/adaptagrams written by an independent sub-agent that saw only the property text and its own scratch worktree "
            "(nothing from /verif): `patch.diff`, the agent's demonstration, and `meta.json`. None is committed to /repo. "
            "`tools/try_seeded.sh seeded/<id>/patch.diff \"<props>\"` applies it, runs the checks and undoes it.\n\n")
    f.write("| id | breaks | needs to manifest | confirmed (demo fails with / passes without / suite passes) | caught by | first caught |\n|---|---|---|---|---|---|\n")
    for d in rows:
        f.write("| %s | %s | %s | %s | %s | %s |\n" % (d["id"], d.get("property", ""), d.get("needs", "").replace("|", "/"), d.get("confirmed", ""), d.get("caught_by", ""), d.get("caught_note", "").replace("|", "/")))
with open("/verif/seeded/README.md", "a") as f:
    f.write("\n## Behaviour-preserving controls\n\nRefactorings that must not raise any alarm (written by sub-agents told to change nothing observable).\n\n| id | files | outcome |\n|---|---|---|\n")
    for d in controls: f.write("| %s | %s | %s |\n" % (d["id"], d.get("files", ""), d.get("result", "")))
print("wrote seeded/README.md with", len(rows), "entries and", len(controls), "controls")
