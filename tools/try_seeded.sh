#!/bin/bash
# usage: tools/try_seeded.sh <patch.diff> "<props>" [tier]  -- apply a seeded change to /repo, run the checks, undo it
# (never run while a background soak is using /repo)
set -u
PATCH=$1; PROPS=$2; TIER=${3:-quick}
cd /verif
if ! git -C /repo diff --quiet; then echo "/repo has uncommitted changes"; exit 2; fi
git -C /repo apply "$PATCH" || { echo "patch does not apply"; exit 2; }
trap 'git -C /repo checkout -- . ; make -s -j16 plain >/dev/null 2>&1' EXIT
for p in $PROPS; do
  out=$(./check $p --tier $TIER 2>&1); rc=$?
  echo "prop=$p rc=$rc"
  echo "$out" | grep -A1 "^VIOLATION" | head -8
done
