#!/bin/bash
# usage: mk_scratch.sh <dir>  -- scratch git worktree of /repo (HEAD) plus the generated autotools files, so that `make check` works there
set -e
D=$1
git -C /repo worktree add --detach "$D" HEAD >/dev/null 2>&1
rsync -a --ignore-existing --exclude .git /repo/ "$D"/
# drop stale objects so the copy builds from its own sources
find "$D/cola" -name '*.o' -o -name '*.lo' -o -name '*.la' -o -name '*.a' | xargs rm -f 2>/dev/null || true
echo "$D ready"
