#!/usr/bin/env python3
"""Regenerates MANIFEST.json from tools/props.py (claimed checks) and the
not-applicable table below; validates against the schema."""
import json, os, sys
ROOT = os.path.dirname(os.path.dirname(os.path.abspath(__file__)))
sys.path.insert(0, os.path.join(ROOT, "tools"))
from props import PROPS
NA = {
    "C16": "pure geometry predicates on a handful of doubles: no state, allocation, callback, clock, file or global for a scheduler or fault injector to vary (DESIGN.md section 5); deterministic simulation has nothing to decide",
    "C17": "pure functions of (n, edges, weights); the pairing heap allocates but never compares addresses and the matrices are computed once in a constructor: no schedule, history, clock, fault or heap dependence (DESIGN.md section 5)",
    "C18": "finite table of transform x constraint kinds and a string round trip through istringstream; no schedule/fault/history dependence and nothing is promised about I/O errors (DESIGN.md section 5)",
}
NOT_BUILT = "claimed in DESIGN.md but its check is not built/soaked yet; listed here rather than as passing"
ALL = ["C%02d" % i for i in range(1, 21)]
checks = []
for pid in ALL:
    if pid not in PROPS: continue
    P = PROPS[pid]
    checks.append({
        "property_id": pid,
        "quick_cmd": "./check %s --tier quick" % pid,
        "thorough_cmd": "./check %s --tier thorough" % pid,
        "evidence_file": "/verif/evidence/%s.json" % pid,
        "replay_cmd_template": "./check %s --replay {path}" % pid,
        "engine": P.get("engine", "adaptasim"),
        "level_claimed": {"category": "exploration", "text": P.get("level_text", "seeded search over simulated worlds (plans = sessions x op histories x faults x schedule x heap placement); a clean batch is evidence, not proof"), "design_ref": "DESIGN.md section 4, " + pid},
        "level_note": P.get("level_note", "; ".join(P.get("assumptions", []))),
        "technique": P.get("technique", "deterministic simulation with fault injection: seeded scheduler over cooperative client sessions, seeded allocator/clock/file seams, reference-model oracle after every op, ddmin-minimised replay plans"),
    })
na = [{"property_id": k, "reason": v} for k, v in NA.items()]
for pid in ALL:
    if pid not in PROPS and pid not in NA: na.append({"property_id": pid, "reason": NOT_BUILT})
na.sort(key=lambda x: x["property_id"])
hooks_commits = [l.strip() for l in open(os.path.join(ROOT, "tools", "hook_commits.txt"))] if os.path.exists(os.path.join(ROOT, "tools", "hook_commits.txt")) else []
m = {
    "version": 1,
    "setup_cmd": "make -s -j16 all",
    "hooks": {"guard": "ADAPTAGRAMS_VERIF", "enable": "checks compile /repo/cola/lib*/*.cpp themselves with -DADAPTAGRAMS_VERIF -DUSE_ASSERT_EXCEPTIONS (Makefile); the repository's own build never defines the guard",
              "baseline_off_cmd": "cd /repo/cola && make -k check -j16", "source_commits": hooks_commits, "add_only": True},
    "engines": [{"name": "adaptasim", "path": "sim/", "serves_properties": sorted(PROPS.keys()),
                 "kind_free_text": "deterministic simulator: seeded baton scheduler over client-session threads (yield points between ops and inside every library->client callback), SimAlloc fixed-arena seeded allocator, --wrap clock/fopen seams, fork per run, plan files as replay, Python ddmin shrinker"}],
    "checks": checks,
    "not_applicable": na,
    "notes": "All commands run with cwd=/verif, rebuild incrementally from /repo's working tree (make), honour VERIF_SEED/VERIF_TIER, write evidence/<id>.json. Exit 0 held / 1 VIOLATION / 2 machinery error. known_findings.txt lists open and fixed findings; pinned plans under findings/.",
}
json.dump(m, open(os.path.join(ROOT, "MANIFEST.json"), "w"), indent=1)
try:
    import jsonschema
    jsonschema.validate(m, json.load(open("/root/.vp/MANIFEST.schema.json")))
    print("MANIFEST.json valid:", len(checks), "checks,", len(na), "not applicable/unclaimed")
except ImportError:
    print("jsonschema not available; wrote MANIFEST.json")
