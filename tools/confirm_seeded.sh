#!/bin/bash
# usage: confirm_seeded.sh <scratch worktree>   -- re-confirm an agent's claims in its scratch worktree:
#   demo fails with the change, passes without it, repository suite passes with it
D=$1; M=$D/MUTATION
cd $D || exit 2
log=$M/confirm.log; : > $log
git apply -R --check $M/patch.diff 2>/dev/null || git apply $M/patch.diff 2>>$log     # make sure the change is applied
(cd cola && make -j8 >/dev/null 2>&1)
(cd $M && bash ./build_and_run.sh >> $log 2>&1); with=$?
git apply -R $M/patch.diff
(cd cola && make -j8 >/dev/null 2>&1)
(cd $M && bash ./build_and_run.sh >> $log 2>&1); without=$?
git apply $M/patch.diff
(cd cola && make -j8 >/dev/null 2>&1; make -k check -j8 > $M/confirm_suite.log 2>&1; make -k check -j8 > $M/confirm_suite.log 2>&1)
pass=$(grep -h "^# PASS:" cola/*/tests/test-suite.log | awk '{s+=$3} END{print s+0}'); fail=$(grep -h "^# FAIL:" cola/*/tests/test-suite.log | awk '{s+=$3} END{print s+0}'); tot=$(grep -h "^# TOTAL:" cola/*/tests/test-suite.log | awk '{s+=$3} END{print s+0}')
echo "$D demo_with_change_rc=$with demo_without_rc=$without suite_total=$tot pass=$pass fail=$fail" | tee -a $log
