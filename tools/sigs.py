#!/usr/bin/env python3
"""tools/sigs.py <prop> <build> <from> <count> [tier]: signature histogram of a seed range (16 workers), and one sample plan per signature in /tmp/sigs/"""
import sys, subprocess, json, collections, os
prop, build, frm, count = sys.argv[1], sys.argv[2], int(sys.argv[3]), int(sys.argv[4])
tier = sys.argv[5] if len(sys.argv) > 5 else "quick"
NW = 8 if build == "san" else 16
os.makedirs("/tmp/sigs", exist_ok=True)
import tempfile
outs = [tempfile.TemporaryFile("w+") for j in range(NW)]     # files, not pipes: workers must never block on a reader
procs = [subprocess.Popen(["/verif/build/%s/adaptasim" % build, "search", "--prop", prop, "--tier", tier, "--from", str(frm + j), "--step", str(NW), "--count", str((count + NW - 1) // NW)], stdout=outs[j], text=True) for j in range(NW)]
cnt = collections.Counter(); st = collections.Counter(); samples = {}
for j, p in enumerate(procs):
    p.wait(); outs[j].seek(0)
    for l in outs[j]:
        if not l.startswith("{"): continue
        j = json.loads(l)
        if j["type"] == "summary":
            for k, v in j.get("sig_counts", {}).items(): cnt[k] += v
            for k, v in j["statuses"].items(): st[k] += v
        else:
            for v in j["result"].get("violations", []):
                k = "%s|%s|%s" % (v["prop"], v["clause"], v["sig"])
                if k not in samples or len(json.dumps(j["plan"])) < len(json.dumps(samples[k])): samples[k] = j["plan"]
print(dict(st))
for k, v in cnt.most_common():
    if k.startswith(prop + "|") or os.environ.get("SIGS_ALL"):
        name = "/tmp/sigs/%s-%s-%03d.json" % (prop, build, abs(hash(k)) % 1000)
        if k in samples: json.dump(samples[k], open(name, "w"))
        print(v, k, name if k in samples else "")
