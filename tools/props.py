# Per-property configuration of the check driver.
# runs_*: upper bound on simulated executions; budget_*: wall seconds for the search phase.
VPSC_RULE = ("each evaluation is one simulated world generated from a seed: 1-3 solver sessions (libvpsc IncSolver or libavoid's private copy) "
             "sharing one seeded heap, each a history of add-constraint / move-desired / satisfy / solve / static one-shot / permuted-twin ops, "
             "scheduled at op granularity; non-trivial = at least one reach probe fired; distinct = distinct event-log hash (FNV over every op, "
             "scheduler decision, result value and flag)")
OVERLAP_RULE = ("each evaluation is one simulated world: 1-3 sessions (removeoverlaps / generateX,YConstraints histories on rectangle sets in six styles: "
                "random, grid-aligned ties, identical, fractional, thin, nested; with fixed subsets and optional third pass; solver sessions as noise) sharing one seeded heap whose "
                "placement policy decides the scan-line tie-breaks; border globals checked at every yield; non-trivial = a reach probe fired; distinct = distinct event-log hash")
PROPS = {
    "C09": dict(build="plain", runs_quick=40000, budget_quick=35, runs_thorough=2000000, budget_thorough=900, rule=OVERLAP_RULE,
                assumptions=["fixed rectangles that overlap one another are dropped from the fixed set (unsatisfiable request)",
                             "constraint-set clause checked for generateYConstraints and generateXConstraints(useNeighbourLists=false) by projecting a random placement with the QP oracle"]),
    "C01": dict(build="plain", runs_quick=60000, budget_quick=35, runs_thorough=3000000, budget_thorough=900, rule=VPSC_RULE,
                assumptions=["oracle tolerance 1e-6 on scaled constraints as in the statement",
                             "flag-iff-infeasible clause only armed for inequality-only, scale-1 systems (as the statement restricts it)",
                             "problem instances are sampled; histories/heap/schedule are the explored dimensions"]),
    "C02": dict(build="plain", runs_quick=60000, budget_quick=35, runs_thorough=3000000, budget_thorough=900, rule=VPSC_RULE,
                assumptions=["oracle = Hildreth dual ascent with KKT self-check; no verdict (counted) when it does not converge",
                             "agreement threshold 1e-4 x problem scale and strictly higher cost than the oracle optimum"]),
}
