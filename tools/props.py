# Per-property configuration of the check driver.
# runs_*: upper bound on simulated executions; budget_*: wall seconds for the search phase.
VPSC_RULE = ("each evaluation is one simulated world generated from a seed: 1-3 solver sessions (libvpsc IncSolver or libavoid's private copy) "
             "sharing one seeded heap, each a history of add-constraint / move-desired / satisfy / solve / static one-shot / permuted-twin ops, "
             "scheduled at op granularity; non-trivial = at least one reach probe fired; distinct = distinct event-log hash (FNV over every op, "
             "scheduler decision, result value and flag)")
OVERLAP_RULE = ("each evaluation is one simulated world: 1-3 sessions (removeoverlaps / generateX,YConstraints histories on rectangle sets in six styles: "
                "random, grid-aligned ties, identical, fractional, thin, nested; with fixed subsets and optional third pass; solver sessions as noise) sharing one seeded heap whose "
                "placement policy decides the scan-line tie-breaks; border globals checked at every yield; non-trivial = a reach probe fired; distinct = distinct event-log hash")
ROUTER_RULE = ("each evaluation is one simulated world: 1-2 editor sessions on their own Avoid::Router (scene of 2-10 convex shapes on a 5-unit grid, 1-8 connectors) "
               "executing a generated history of add/move/resize/delete shape, move end point, add/delete connector, parameter changes and processTransaction ops, "
               "with cancel/deadline/clock faults attached to transactions, transactions on or off, router tunables and heap placement varied per run, optional noise session; "
               "oracles run after every completed transaction; non-trivial = a reach probe fired; distinct = distinct event-log hash")
MIX_RULE = ("each evaluation is one simulated world of 1-5 sessions drawn from every engine (router editors in all modes incl. immediate mode, libvpsc/libavoid solvers, "
            "overlap removal, layouts, HOLA graphs) sharing heap, clock, file layer and globals, interleaved at every callback; non-trivial = a reach probe fired; distinct = distinct event-log hash")
LAYOUT_RULE = ("each evaluation is one simulated world: 1-2 cola::ConstrainedFDLayout sessions (3-12 nodes, compound constraints generated from a hidden witness placement, optional "
               "contradiction, overlap avoidance, rectangular cluster hierarchy) driven by a simulated user through TestConvergence/PreIteration: stop at any iteration, interrupt at any "
               "pre-iteration call, locks injected and released mid-run, makeFeasible before/after/without run, runOnce, x-only/y-only; sessions interleave at every callback and share "
               "heap and the Rectangle border globals; non-trivial = a reach probe fired; distinct = distinct event-log hash")
TOPO_RULE = ("each evaluation is one simulated world: 1-2 topology-preserving layout sessions (3-10 non-overlapping nodes, tree plus extra edges, initial routes computed by a libavoid "
             "polyline router inside the session) whose invariant is evaluated inside every iteration while a simulated user drags a node (lock at a random pre-iteration call, released later), "
             "resizes a node mid-run and may stop at any iteration; non-trivial = a reach probe fired; distinct = distinct event-log hash")
DIALECT_RULE = ("each evaluation is one simulated world: graph sessions building a dialect::Graph from generated TGLF and running a one-shot pipeline (doHOLA; peel + symmetric tree layout; connected components; "
                "leafless orthogonal routing + planarisation), as the N-th graph of the process (id counters shifted by earlier sessions and by a generated offset), on a seeded heap whose placement policy decides the "
                "order of the pointer-ordered sets, interleaved with other sessions; non-trivial = a reach probe fired; distinct = distinct event-log hash")
PROPS = {
    "C14": dict(build="plain", runs_quick=12000, budget_quick=150, runs_thorough=100000, budget_thorough=1200, rule=DIALECT_RULE, timeout_quick=60,
                level_text="seeded search; most of this property's quantifier (all connected graphs, options) is workload sampling -- the simulation contributes the heap-order, id-offset and interleaving dimensions only (weak claim)",
                assumptions=["connected graphs of 3-14 nodes (thorough: up to 40), trees / cycles / trees with extra edges / hubs / a hub on two cycles carrying a tree / theta graphs (hubs joined by chains of 2-6 link nodes, chains for links); aspect-ratio preference and its tie-breaking growth direction drawn", "route ends may lie up to nodePaddingScalar x IEL outside the node box (documented padding)",
                             "a std::runtime_error from doHOLA (no feasible expansion) is a refusal, counted but not judged"]),
    "C19": dict(build="plain", runs_quick=20000, budget_quick=150, runs_thorough=400000, budget_thorough=900, rule=DIALECT_RULE,
                level_text="seeded search; the decompositions are close to pure functions of the graph -- the simulation contributes heap order (planarise), id offsets and interleaving only (weak claim)",
                assumptions=["simple graphs up to 30 nodes (thorough: 60); an empty core is allowed when the input is a tree", "planarise: cycle-plus-chords graphs on a jittered grid routed by LeaflessOrthoRouter"]),
    "C12": dict(build="plain", runs_quick=20000, budget_quick=150, runs_thorough=300000, budget_thorough=900,
                rule="each evaluation is one simulated world: 1-2 hyperedge sessions (4-9 rectangles with centre and side pins, 1-2 hyperedges of 3..N terminals joined through 1-2 junctions at free points) "
                     "executing histories of transactions with shape moves, junction moves, full rerouting registered by junction or by terminal list, in 20 % of the sessions the route of one connector fixed (setFixedExistingRoute) after the first transactions, with improveHyperedgeRoutesMovingJunctions or "
                     "...AddingAndDeletingJunctions; the tree/terminal/attachment/route/reported-list oracles read the router's live objects after every transaction; heap placement decides the pointer-ordered "
                     "terminal and junction sets; non-trivial = a reach probe fired; distinct = distinct event-log hash",
                assumptions=["route ends compared as an unordered pair; a junction the improver moved counts at recommendedPosition()",
                             "junctions in the reported deleted list are excluded until the following transaction (documented: freed at the router's convenience)"]),
    "C10": dict(build="plain", runs_quick=90000, budget_quick=150, runs_thorough=400000, budget_thorough=900,
                rule=ROUTER_RULE + "; C10 scenes: grid of cells with one rectangle each (corridors 20-160 wide), 2-7 orthogonal connectors with free end points, nudging distance 2-10, all nudging option combinations, histories of moves and re-nudging; structured members: doors (a wall with a too narrow and a wide door), staircases (connectors between pins of facing shapes that touch at bends), checkpoint on a straight run after an S-bend (pass-straight-through masks, all orientations)",
                assumptions=["overlap clause armed only if at least one of the two segments is interior and the free channel around its whole extent is >= (connectors+1) x nudging distance on both sides",
                             "two end segments that already overlapped in the raw routes are not judged (both fixed), an overlap that nudging creates between two end segments is; end-point clause only with nudgeOrthogonalSegmentsConnectedToShapes off", "with nudgeSharedPathsWithCommonEndPoint off a shared path that ends at an end point lying on the other connector's route is not judged (ambiguity of the option; 5.7 % of unchanged scenes)",
                             "minimum-distance clause: pairs that shared a path in route() and are separated in displayRoute() are >= distance/10 apart"]),
    "C11": dict(build="plain", runs_quick=30000, budget_quick=150, runs_thorough=400000, budget_thorough=900,
                rule=ROUTER_RULE + "; C11 scenes: rectangles carrying side pins (class 1, exclusive, directed), a shared centre pin (class 2) and a quarter/absolute-offset pin (class 3, sometimes a second one stacked behind it at a deeper inside offset), connectors attached up to pin capacity, checkpoints, histories of moves and resizes",
                assumptions=["pin positions recomputed by the harness from the documented offset rules on the model polygon", "connectors per (shape, exclusive class) never exceed the number of pins",
                             "insideOffset 0 on boundary pins is a separate swarm member with its own signature"]),
    "C13": dict(build="plain", runs_quick=20000, budget_quick=150, runs_thorough=400000, budget_thorough=900, rule=TOPO_RULE,
                assumptions=["harness oracles: interior test with 1e-4 shrink, node overlap 1e-3, path ends, bends on corners turning towards their node; plus the library's own invariant checks as exceptions",
                             "runs whose initial libavoid routes already fail the invariant are not judged (counted)", "resize events grow or shrink a node by up to 30 units, 30 % of them by 40-120 units"]),
    "C07": dict(build="plain", runs_quick=30000, budget_quick=150, runs_thorough=600000, budget_thorough=900, rule=LAYOUT_RULE,
                assumptions=["tolerance 1e-4 on every compound constraint; violated constraints must be in the reported unsatisfiable lists",
                             "relaxation: interrupted before the first completed iteration without makeFeasible -> only sizes/finiteness (nothing has been projected)"]),
    "C08": dict(build="plain", runs_quick=30000, budget_quick=150, runs_thorough=600000, budget_thorough=900, rule=LAYOUT_RULE,
                assumptions=["armed after makeFeasible() followed by at least one completed iteration, nothing reported unsatisfiable",
                             "user constraints and clusters are generated from a non-overlapping witness grid", "a cluster built on a node rectangle (RectangularCluster(rectIndex)): the box and its members count as declared to overlap; such scenes carry no user constraints"]),
    "C15": dict(build="san", also_build="plain", also_runs_quick=20000, also_budget_quick=15, also_runs_thorough=600000, also_budget_thorough=600, runs_quick=6000, budget_quick=45, shrink_budget=60, runs_thorough=150000, budget_thorough=1200, rule=MIX_RULE, timeout_quick=60,
                assumptions=["ASan+UBSan (recoverable) on all five libraries and the harness, LeakSanitizer check at the end of every run, library assertions as exceptions, watchdog", "topology sessions also drive a ConvexCluster boundary (cyclic topology edge, built as ColaTopologyAddon::makeFeasible builds it) through TopologyConstraints passes in both dimensions",
                             "allocation failure is not injected (the property is about valid use)",
                             "only direct leaks are classified; leaks in a run in which the library threw an assertion are attributed to that assertion"]),
    "C20": dict(build="plain", runs_quick=6000, budget_quick=150, runs_thorough=200000, budget_thorough=1200, rule=MIX_RULE + "; every evaluation executes the subject session three times: alone (lifo heap, constant fill), in the busy world (random placement, junk fill), and in the busy world with another heap seed; every third evaluation is instead a frame-twin world: two editor sessions, the second executing the first one's plan translated by k/1024 or mirrored/quarter-turned, compared transaction by transaction",
                assumptions=["routes and solver positions compared bit-exact, layout positions to 1e-9", "frame clauses (translation, symmetries, permutation) are input relations executed as twin sessions"]),
    "C03": dict(build="plain", runs_quick=45000, budget_quick=150, runs_thorough=400000, budget_thorough=900, rule=ROUTER_RULE,
                assumptions=["validity judged against the shapes themselves (not the buffered routing polygons), tolerance 1e-7 in clip parameter",
                             "interior clause only when a path exists among obstacles inflated by 1 unit (by the shape buffer distance when that is larger)", "buffered scenes place shapes 2*buffer+5, buffer, 5 or 0 apart (routing boxes may overlap); no edit may make two shape boxes overlap (refused by the executor)",
                             "after a cancelled transaction oracles are suspended until the next completed transaction (recovery clause)"]),
    "C04": dict(build="plain", runs_quick=60000, budget_quick=150, runs_thorough=300000, budget_thorough=900, rule=ROUTER_RULE,
                assumptions=["separated (gap>=5) convex obstacles, free end points with all directions, angle/crossing penalties 0",
                             "penalty>0: violation only if costlier than the taut-path optimum; equal to taut but above the free optimum is known finding KF-C04-a"]),
    "C05": dict(build="plain", runs_quick=60000, budget_quick=150, runs_thorough=300000, budget_thorough=900, rule=ROUTER_RULE,
                assumptions=["cost oracle armed for free end points with all directions; rectangles; buffer distance modelled by growing the boxes", "the segment penalty is changed on the live router between transactions (6 % of the edits); bends are priced with the value in force",
                             "35 % of the scenes put the source of a new connector on the scan line of another connector's free end, restricted to that line; connectors with a restricted end are not judged for cost, their neighbours are (KF-C05-a/b, rate guarded)",
                             "the bend-estimator sentence of the statement is a pure function and is not decided here"]),
    "C06": dict(build="plain", runs_quick=36000, budget_quick=150, runs_thorough=250000, budget_thorough=900, rule=ROUTER_RULE,
                assumptions=["cost equality armed with crossing/shared-path/cluster penalties 0 and free end points",
                             "fresh router: same code, same parameters, shapes created in id order"]),
    "C09": dict(build="plain", runs_quick=40000, budget_quick=150, runs_thorough=2000000, budget_thorough=900, rule=OVERLAP_RULE,
                assumptions=["fixed rectangles that overlap one another are dropped from the fixed set (unsatisfiable request)",
                             "constraint-set clause checked for generateYConstraints and generateXConstraints(useNeighbourLists=false) by projecting a random placement with the QP oracle"]),
    "C01": dict(build="plain", runs_quick=60000, budget_quick=150, runs_thorough=3000000, budget_thorough=900, rule=VPSC_RULE,
                assumptions=["oracle tolerance 1e-6 on scaled constraints as in the statement",
                             "flag-iff-infeasible clause only armed for inequality-only, scale-1 systems (as the statement restricts it)",
                             "problem instances are sampled; histories/heap/schedule are the explored dimensions"]),
    "C02": dict(build="plain", runs_quick=55000, budget_quick=150, runs_thorough=3000000, budget_thorough=900, rule=VPSC_RULE,
                assumptions=["oracle = Hildreth dual ascent with KKT self-check; no verdict (counted) when it does not converge",
                             "agreement threshold 1e-4 x problem scale and strictly higher cost than the oracle optimum", "re-solves on the live incremental solver move desired positions and (35 % of them) also change weights, as gradient projection does when it pins a node"]),
}
