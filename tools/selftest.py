"""Determinism self-test: every seed is executed in separate processes, at two
worker counts, and from its written plan file; event-log hashes must agree."""
import subprocess, json, sys, os, tempfile

def hashes(binp, prop, frm, count, step=1, tier="quick"):
    out = subprocess.run([binp, "search", "--prop", prop, "--tier", tier, "--from", str(frm), "--count", str(count), "--step", str(step), "--all"],
                         stdout=subprocess.PIPE, text=True).stdout
    h = {}
    for l in out.splitlines():
        j = json.loads(l)
        if j["type"] == "run": h[int(j["seed"])] = (j["result"].get("hash"), j["result"].get("status"), json.dumps(j["result"].get("violations")))
    return h

def main(n, binary, build, PROPS):
    bad = 0
    for prop, P in sorted(PROPS.items()):
        cfg = P.get("build", "plain")
        build(cfg)
        b = binary(cfg)
        nn = max(20, n // (8 if cfg == "san" else 1))
        a = hashes(b, prop, 1000, nn)
        # second pass: 4 processes with interleaved seeds (different fork order, different parent state)
        procs = [subprocess.Popen([b, "search", "--prop", prop, "--from", str(1000 + j), "--count", str((nn + 3) // 4), "--step", "4", "--all"], stdout=subprocess.PIPE, text=True) for j in range(4)]
        bmap = {}
        for p in procs:
            for l in p.communicate()[0].splitlines():
                j = json.loads(l)
                if j["type"] == "run": bmap[int(j["seed"])] = (j["result"].get("hash"), j["result"].get("status"), json.dumps(j["result"].get("violations")))
        # a wall-clock watchdog timeout (loaded machine) is not a result of the simulation: such runs are counted apart
        timeouts = [s for s in a if s in bmap and ("timeout" in (a[s][1] or "") or "timeout" in (bmap[s][1] or ""))]
        mism = [s for s in a if s in bmap and a[s] != bmap[s] and s not in timeouts]
        # third: replay from written plan files
        rep = 0
        for s in list(a)[:10]:
            plan = subprocess.run([b, "gen", "--prop", prop, "--seed", str(s)], stdout=subprocess.PIPE, text=True).stdout
            with tempfile.NamedTemporaryFile("w", suffix=".json", delete=False, dir=os.path.join(os.path.dirname(b))) as f:
                f.write(plan); path = f.name
            r = json.loads(subprocess.run([b, "replay", "--plan", path], stdout=subprocess.PIPE, text=True).stdout.splitlines()[-1])
            os.unlink(path)
            if r.get("hash") != a[s][0]: rep += 1
        # sanitizer build: the allocator is the real one, and a forked run inherits the heap of the searching process, which differs
        # between the two passes.  A world whose library code depends on heap addresses (known findings KF-C20-b/e/g/h) may then take
        # another path although scheduler, clock and faults are identical.  Such a seed is told apart by two replays of its plan
        # file in FRESH processes (equal initial heap): they must agree with each other.
        heapdep = []
        if cfg == "san":
            for s in list(mism):
                plan = subprocess.run([b, "gen", "--prop", prop, "--seed", str(s)], stdout=subprocess.PIPE, text=True).stdout
                with tempfile.NamedTemporaryFile("w", suffix=".json", delete=False, dir=os.path.join(os.path.dirname(b))) as f:
                    f.write(plan); path = f.name
                hs = [json.loads(subprocess.run([b, "replay", "--plan", path], stdout=subprocess.PIPE, text=True).stdout.splitlines()[-1]).get("hash") for _ in range(2)]
                os.unlink(path)
                if hs[0] == hs[1]: heapdep.append(s); mism.remove(s)
        print("selftest %s: %d seeds, %d hash mismatches across processes, %d plan-file replays differ" % (prop, len(a), len(mism), rep), flush=True)
        if heapdep: print("   (%d seeds, e.g. %s, differ between the two passes only: sanitizer build, real allocator, heap inherited from the searching process; two fresh-process replays of each agree -- the library's heap-address dependence, KF-C20-b/e/g/h)" % (len(heapdep), heapdep[:3]))
        if mism: print("   e.g. seeds", mism[:5], [(a[s][1], bmap[s][1]) for s in mism[:5]])
        if timeouts: print("   (%d runs hit the wall-clock watchdog in one of the passes and were not compared)" % len(timeouts))
        bad += len(mism) + rep
    return 1 if bad else 0
