#!/bin/bash
# Runs the repository's own test suite (guard off) on a scratch copy of /repo's working tree.
# usage: run_suite.sh [scratchdir]   -> prints PASS/FAIL totals; removes the copy afterwards
set -u
D=${1:-/tmp/suite.$$}
rm -rf "$D"; mkdir -p "$D"
rsync -a --exclude .git /repo/ "$D/"
cd "$D/cola" || exit 2
make -k check -j16 > "$D/check.log" 2>&1
pass=$(grep -h "^# PASS:" */tests/test-suite.log 2>/dev/null | awk '{s+=$3} END{print s+0}')
fail=$(grep -h "^# FAIL:" */tests/test-suite.log 2>/dev/null | awk '{s+=$3} END{print s+0}')
err=$(grep -h "^# ERROR:" */tests/test-suite.log 2>/dev/null | awk '{s+=$3} END{print s+0}')
tot=$(grep -h "^# TOTAL:" */tests/test-suite.log 2>/dev/null | awk '{s+=$3} END{print s+0}')
echo "suite: TOTAL=$tot PASS=$pass FAIL=$fail ERROR=$err"
grep -h "^FAIL\|^ERROR" */tests/test-suite.log 2>/dev/null | head
cd /; rm -rf "$D"
[ "$fail" = "0" ] && [ "$err" = "0" ] && [ "$tot" -ge 170 ]
