// E-VPSC: solver sessions (live IncSolver histories, static Solver one-shots,
// permuted twins; libvpsc and libavoid's private copy) and overlap-removal
// sessions.  Serves C01, C02, C09 (+C15, C20).
#include "core.h"
#include "oracle_qp.h"
#include "libvpsc/solve_VPSC.h"
#include "libvpsc/variable.h"
#include "libvpsc/constraint.h"
#include "libvpsc/exceptions.h"
#include "libvpsc/rectangle.h"
#include "libvpsc/assertions.h"
#include "libavoid/vpsc.h"
#include "libavoid/assertions.h"

struct VpscNS {
    typedef vpsc::Variable Var; typedef vpsc::Constraint Con; typedef vpsc::IncSolver Inc;
    typedef vpsc::Variables Vars; typedef vpsc::Constraints Cons;
    typedef vpsc::UnsatisfiedConstraint Unsat;
    static const char *name() { return "vpsc"; }
};
struct AvoidNS {
    typedef Avoid::Variable Var; typedef Avoid::Constraint Con; typedef Avoid::IncSolver Inc;
    typedef Avoid::Variables Vars; typedef Avoid::Constraints Cons;
    typedef Avoid::UnsatisfiedConstraint Unsat;
    static const char *name() { return "avoid"; }
};

static QCon conFrom(const Json &j) { return QCon{(int)j[0].i(), (int)j[1].i(), j[2].num(), j[3].i() != 0}; }

template <class NS> struct SolverSession : Session {
    QProb model;
    typename NS::Vars vs;
    typename NS::Cons cs;
    typename NS::Inc *solver = nullptr;
    bool dead = false;

    void teardown() {
        LibScope ls;
        delete solver; solver = nullptr;
        for (auto c : cs) delete c;
        for (auto v : vs) delete v;
        cs.clear(); vs.clear();
    }
    double scale() const { double sc = 1; for (double d : model.d) sc = std::max(sc, std::fabs(d)); for (auto &c : model.cs) sc = std::max(sc, std::fabs(c.g)); return sc; }

    template <class F> std::string guarded(F fn) {
        // run a library call; return "" or the kind of exception that escaped
        try { LibScope ls; fn(); }
        catch (typename NS::Unsat &) { return "UnsatisfiedConstraint"; }
        catch (vpsc::UnsatisfiedConstraint &) { return "UnsatisfiedConstraint"; }
        catch (char *) { return "char*"; }
        catch (const char *) { return "char*"; }
        catch (vpsc::CriticalFailure &f) { HarnessScope hs; return fmt("assert@%s:%d", strstr(f.file, "lib") ? strstr(f.file, "lib") : f.file, f.line); }
        catch (std::exception &e) { return std::string("std::exception"); }
        catch (...) { return "unknown"; }
        return "";
    }

    // C01 oracle on reported positions
    void checkC01(const std::vector<double> &x, const std::vector<bool> &flagged, const char *who, bool ineqOnlyScale1) {
        int m = (int)model.cs.size();
        bool anyflag = false;
        for (int k = 0; k < m; k++) {
            if (flagged[k]) { anyflag = true; continue; }
            const QCon &c = model.cs[k];
            double lhs = model.s[c.l] * x[c.l] + c.g, rhs = model.s[c.r] * x[c.r];
            if (lhs > rhs + 1e-6 || (c.eq && std::fabs(lhs - rhs) > 1e-6)) {
                std::string sig = std::string(who) + ":unflagged-constraint-violated";
                if (!strcmp(who, "static") && c.eq && rhs - lhs > 1e-6) sig = "static-equality-slack";
                violate("C01", "satisfied", sig, fmt("constraint %d: v%d*%g+%g=%g vs v%d*%g=%g eq=%d", k, c.l, model.s[c.l], c.g, lhs, c.r, model.s[c.r], rhs, (int)c.eq));
                break;
            }
        }
        for (size_t i = 0; i < x.size(); i++) if (!std::isfinite(x[i])) { violate("C01", "finite", std::string(who) + ":non-finite", fmt("v%zu", i)); break; }
        if (ineqOnlyScale1) {
            bool feas = qpFeasible(model);
            if (anyflag && feas) violate("C01", "flag-iff-infeasible", std::string(who) + ":flagged-but-feasible", "");
            if (!anyflag && !feas) violate("C01", "flag-iff-infeasible", std::string(who) + ":infeasible-none-flagged", "");
            probe(feas ? "vpsc.feasible" : "vpsc.infeasible");
        }
    }

    void run() override {
        const Json &cfg = spec["cfg"];
        for (auto &v : cfg["vars"].a) { model.d.push_back(v[0].num()); model.w.push_back(v[1].num(1)); model.s.push_back(v[2].num(1)); }
        int n = (int)model.d.size();
        for (auto &c : cfg["cons"].a) { QCon q = conFrom(c); if (q.l < n && q.r < n && q.l != q.r) model.cs.push_back(q); }
        {
            LibScope ls;
            for (int i = 0; i < n; i++) vs.push_back(new typename NS::Var(i, model.d[i], model.w[i], model.s[i]));
            for (auto &c : model.cs) cs.push_back(new typename NS::Con(vs[c.l], vs[c.r], c.g, c.eq));
        }
        std::string ex = guarded([&] { solver = new typename NS::Inc(vs, cs); });
        if (!ex.empty()) { probe(("vpsc.ctor-threw:" + ex).c_str()); dead = true; }
        const Json &ops = spec["ops"];
        for (size_t oi = 0; oi < ops.size() && !dead; oi++) {
            curOp = (int)oi;
            const Json &op = ops[oi];
            std::string o = op.str("op", "");
            w->log.ev(o.c_str(), id, (long)oi);
            if (o == "add") {
                for (auto &cj : op["cons"].a) {
                    QCon q = conFrom(cj);
                    if (q.l >= n || q.r >= n || q.l == q.r) continue;
                    model.cs.push_back(q);
                    std::string e2 = guarded([&] {
                        auto *nc = new typename NS::Con(vs[q.l], vs[q.r], q.g, q.eq);
                        cs.push_back(nc);               // the solver keeps a reference to this vector
                        solver->addConstraint(nc);
                    });
                    if (!e2.empty()) { violate("C01", "threw", std::string("inc-add-threw:") + e2, ""); dead = true; break; }
                    probe("vpsc.addConstraint");
                }
            } else if (o == "desired") {
                for (auto &dj : op["set"].a) {
                    int i = (int)dj[0].i();
                    if (i >= n) continue;
                    model.d[i] = dj[1].num();
                    vs[i]->desiredPosition = model.d[i];
                }
                probe("vpsc.desired-moved");
            } else if (o == "solve" || o == "satisfy") {
                bool isSolve = o == "solve";
                std::string e2 = guarded([&] { if (isSolve) solver->solve(); else solver->satisfy(); });
                if (!e2.empty()) {
                    w->fault("exception");
                    violate("C01", "threw", "inc-threw:" + e2, o);
                    if (e2.rfind("assert@", 0) == 0) { probe(e2.c_str()); violate("C15", "assert", e2, o); }
                    dead = true;
                    break;
                }
                int m = (int)model.cs.size();
                std::vector<bool> flagged(m, false);
                bool anyflag = false, ineqOnly = true, scale1 = true;
                for (int k = 0; k < m; k++) { if (cs[k]->unsatisfiable) { flagged[k] = true; anyflag = true; } if (model.cs[k].eq) ineqOnly = false; }
                for (double s : model.s) if (s != 1) scale1 = false;
                std::vector<double> x(n);
                for (int i = 0; i < n; i++) x[i] = vs[i]->finalPosition;
                record(x, true);
                for (int k = 0; k < m; k++) w->log.mixv(flagged[k]);
                if (anyflag) probe("vpsc.flagged");
                if (oi > 0) probe(isSolve ? "vpsc.re-solve" : "vpsc.re-satisfy");
                if (armed("C01")) checkC01(x, flagged, "inc", ineqOnly && scale1);
                if (armed("C02") && isSolve && !anyflag) {
                    std::vector<double> opt;
                    int ok = qpSolve(model, opt, flagged, n > 40 ? 60000 : 300000);
                    if (!ok) probe("vpsc.oracle-no-verdict");
                    else {
                        probe("vpsc.optimum-compared");
                        double sc = scale(), md = 0;
                        for (int i = 0; i < n; i++) md = std::max(md, std::fabs(opt[i] - x[i]));
                        if (md > 1e-5 * sc * 10 && qpCost(model, x) > qpCost(model, opt) * (1 + 1e-9) + 1e-9) {
                            // classifier: does the same live solver get there with more satisfy() calls?
                            double c0 = qpCost(model, x), copt = qpCost(model, opt);
                            bool converged = false;
                            for (int t = 0; t < 10 && !converged; t++) {
                                std::string e3 = guarded([&] { solver->satisfy(); });
                                if (!e3.empty()) break;
                                double md2 = 0;
                                for (int i = 0; i < n; i++) md2 = std::max(md2, std::fabs(opt[i] - vs[i]->finalPosition));
                                if (md2 <= 1e-5 * sc * 10) converged = true;
                            }
                            violate("C02", "optimum", converged ? "premature-termination" : "wrong-optimum",
                                    fmt("max |x-x*|=%g cost %.9g optimum %.9g (ns=%s)", md, c0, copt, NS::name()));
                        }
                    }
                }
            } else if (o == "twin") {
                // same problem, permuted ids and constraint order, fresh solver: order independence
                if (!armed("C02") && !armed("C20")) continue;
                std::vector<int> perm; for (auto &pj : op["perm"].a) perm.push_back((int)pj.i());
                std::vector<int> cperm; for (auto &pj : op["cperm"].a) cperm.push_back((int)pj.i());
                if ((int)perm.size() != n) { perm.resize(n); for (int i = 0; i < n; i++) perm[i] = i; }
                int m = (int)model.cs.size();
                std::vector<int> order;
                std::vector<bool> used(m, false);
                for (int c : cperm) if (c >= 0 && c < m && !used[c]) { used[c] = true; order.push_back(c); }
                for (int c = 0; c < m; c++) if (!used[c]) order.push_back(c);
                typename NS::Vars tv(n); typename NS::Cons tc;
                std::vector<double> xa(n), xb(n);
                bool flagA = false, flagB = false;
                std::string e2 = guarded([&] {
                    // reference: identity order
                    typename NS::Vars rv; typename NS::Cons rc;
                    for (int i = 0; i < n; i++) rv.push_back(new typename NS::Var(i, model.d[i], model.w[i], model.s[i]));
                    for (auto &c : model.cs) rc.push_back(new typename NS::Con(rv[c.l], rv[c.r], c.g, c.eq));
                    { typename NS::Inc s(rv, rc); s.solve(); }
                    for (int i = 0; i < n; i++) xa[i] = rv[i]->finalPosition;
                    for (auto c : rc) { flagA |= c->unsatisfiable; delete c; }
                    for (auto v : rv) delete v;
                    // permuted: variable i gets id perm[i] and sits at index perm[i]
                    for (int i = 0; i < n; i++) tv[perm[i]] = new typename NS::Var(perm[i], model.d[i], model.w[i], model.s[i]);
                    for (int k : order) { const QCon &c = model.cs[k]; tc.push_back(new typename NS::Con(tv[perm[c.l]], tv[perm[c.r]], c.g, c.eq)); }
                    { typename NS::Inc s(tv, tc); s.solve(); }
                    for (int i = 0; i < n; i++) xb[i] = tv[perm[i]]->finalPosition;
                    for (auto c : tc) { flagB |= c->unsatisfiable; delete c; }
                    for (auto v : tv) delete v;
                });
                if (!e2.empty()) { probe("vpsc.twin-threw"); continue; }
                probe("vpsc.twin");
                if (!flagA && !flagB) {
                    double sc = scale(), md = 0;
                    for (int i = 0; i < n; i++) md = std::max(md, std::fabs(xa[i] - xb[i]));
                    if (md > 1e-5 * sc * 10) violate("C02", "order-independence", "permuted-twin-differs", fmt("max diff %g", md));
                    if (md > 1e-5 * sc * 10) violate("C20", "frame", "vpsc-permutation-changes-solution", fmt("max diff %g", md));
                }
            } else if (o == "static") {
                // one-shot static solver on the current problem (fresh variables)
                if constexpr (std::is_same<NS, VpscNS>::value) {
                    int m = (int)model.cs.size();
                    vpsc::Variables sv; vpsc::Constraints sc_;
                    std::vector<double> x(n);
                    std::vector<bool> flagged(m, false);
                    std::string e2 = guarded([&] {
                        for (int i = 0; i < n; i++) sv.push_back(new vpsc::Variable(i, model.d[i], model.w[i], model.s[i]));
                        for (auto &c : model.cs) sc_.push_back(new vpsc::Constraint(sv[c.l], sv[c.r], c.g, c.eq));
                        vpsc::Solver s(sv, sc_);
                        if (op.boolean("satisfy", false)) s.satisfy(); else s.solve();
                    });
                    for (int i = 0; i < n && i < (int)sv.size(); i++) x[i] = sv[i]->finalPosition;
                    for (int k = 0; k < m && k < (int)sc_.size(); k++) flagged[k] = sc_[k]->unsatisfiable;
                    { LibScope ls; for (auto c : sc_) delete c; for (auto v : sv) delete v; }
                    bool ineqOnly = true, scale1 = true;
                    for (auto &c : model.cs) if (c.eq) ineqOnly = false;
                    for (double s : model.s) if (s != 1) scale1 = false;
                    // acyclic as a directed graph?
                    bool dag = true;
                    {
                        std::vector<int> indeg(n, 0); std::vector<std::vector<int>> adj(n);
                        for (auto &c : model.cs) { adj[c.l].push_back(c.r); indeg[c.r]++; }
                        std::vector<int> q; for (int i = 0; i < n; i++) if (!indeg[i]) q.push_back(i);
                        size_t seen = 0;
                        while (!q.empty()) { int u = q.back(); q.pop_back(); seen++; for (int v2 : adj[u]) if (!--indeg[v2]) q.push_back(v2); }
                        dag = seen == (size_t)n;
                    }
                    probe(dag ? "vpsc.static-dag" : "vpsc.static-cyclic");
                    if (!e2.empty()) {
                        w->fault("exception");
                        bool feas = scale1 ? qpFeasible(model) : true;
                        if (e2.rfind("assert@", 0) == 0) { probe(e2.c_str()); violate("C15", "assert", e2, "static"); }
                        else if (dag && feas) violate("C01", "threw", "static-threw-on-feasible-dag:" + e2, "");
                        else if (!dag && feas && scale1) violate("C01", "threw", "static-threw-on-feasible-cyclic", e2);
                        // infeasible input: throwing is how the static solver reports it
                    } else {
                        record(x, true);
                        if (armed("C01")) checkC01(x, flagged, "static", false);
                        bool anyflag = false; for (bool b : flagged) anyflag |= b;
                        if (armed("C02") && !anyflag && dag && !op.boolean("satisfy", false)) {
                            std::vector<double> opt;
                            if (qpSolve(model, opt, flagged, n > 40 ? 60000 : 300000)) {
                                probe("vpsc.static-optimum-compared");
                                bool feasibleResult = true;
                                for (auto &c : model.cs) { double lhs = model.s[c.l] * x[c.l] + c.g, rhs = model.s[c.r] * x[c.r]; if (lhs > rhs + 1e-6 || (c.eq && std::fabs(lhs - rhs) > 1e-6)) feasibleResult = false; }
                                double sc = scale(), md = 0;
                                for (int i = 0; i < n; i++) md = std::max(md, std::fabs(opt[i] - x[i]));
                                if (feasibleResult && md > 1e-5 * sc * 10 && qpCost(model, x) > qpCost(model, opt) * (1 + 1e-9) + 1e-9)
                                    violate("C02", "optimum", scale1 ? "static-wrong-optimum" : "static-wrong-optimum:scaled-variables", fmt("max |x-x*|=%g cost %.9g optimum %.9g", md, qpCost(model, x), qpCost(model, opt)));
                            }
                        }
                    }
                }
            }
            yield("op");
        }
        curOp = -1;
        teardown();
    }
};

static Session *mkVpsc() { return new SolverSession<VpscNS>(); }
static Session *mkAvoidVpsc() { return new SolverSession<AvoidNS>(); }
static SessionRegistrar r1("vpsc", mkVpsc), r2("avoidvpsc", mkAvoidVpsc);

// ---------------------------------------------------------------- generator
Json genSolverSession(Rng &r, const std::string &tier, int forceNs = -1) {
    Json s = Json::obj();
    bool avoidNs = forceNs >= 0 ? forceNs == 1 : r.chance(0.3);
    s.set("kind", avoidNs ? "avoidvpsc" : "vpsc");
    bool cycles = r.chance(0.5), equalities = r.chance(0.4), scales = r.chance(0.25), dups = r.chance(0.3);
    bool large = tier == "thorough" && r.chance(0.1);
    int n = large ? r.range(20, 200) : r.range(2, 12);
    Json vars = Json::arr();
    std::vector<double> ws{1, 1, 1, 2, 10, 0.5, 1000}, ss{1, 1, 2, 0.5, 3};
    for (int i = 0; i < n; i++) {
        Json v = Json::arr();
        v.push((double)r.range(-10, 10) * (large ? 5 : 1));
        v.push(r.pick(ws));
        v.push(scales ? r.pick(ss) : 1.0);
        vars.push(v);
    }
    auto genCon = [&]() {
        for (;;) {
            int a = (int)r.below(n), b = (int)r.below(n);
            if (a == b) continue;
            if (!cycles && a > b) std::swap(a, b);
            Json c = Json::arr();
            c.push(a); c.push(b); c.push((double)r.range(-2, 6)); c.push(equalities && r.chance(0.17) ? 1 : 0);
            return c;
        }
    };
    Json cons = Json::arr();
    int m = (int)r.below(n + 2 + (large ? n : 0));
    for (int k = 0; k < m; k++) { Json c = genCon(); cons.push(c); if (dups && r.chance(0.2)) cons.push(c); }
    Json cfg = Json::obj(); cfg.set("vars", vars); cfg.set("cons", cons);
    s.set("cfg", cfg);
    Json ops = Json::arr();
    int steps = r.range(1, large ? 5 : 10);
    for (int st = 0; st < steps; st++) {
        if (st > 0) {
            int what = (int)r.below(3);
            if (what == 0 || what == 2) {
                Json o = Json::obj(); o.set("op", "add"); Json cl = Json::arr();
                int k = r.range(1, 3); for (int j = 0; j < k; j++) cl.push(genCon());
                o.set("cons", cl); ops.push(o);
            }
            if (what >= 1) {
                Json o = Json::obj(); o.set("op", "desired"); Json sl = Json::arr();
                int k = r.range(1, std::min(n, 8));
                for (int j = 0; j < k; j++) { Json e = Json::arr(); e.push((long)r.below(n)); e.push((double)r.range(-20, 20) * (large ? 5 : 1)); sl.push(e); }
                o.set("set", sl); ops.push(o);
            }
        }
        Json o = Json::obj(); o.set("op", r.chance(0.75) ? "solve" : "satisfy"); ops.push(o);
        if (!avoidNs && r.chance(0.15)) { Json t = Json::obj(); t.set("op", "static"); if (r.chance(0.2)) t.set("satisfy", true); ops.push(t); }
        if (r.chance(0.15)) {
            Json t = Json::obj(); t.set("op", "twin");
            std::vector<int> perm(n); for (int i = 0; i < n; i++) perm[i] = i;
            for (int i = n - 1; i > 0; i--) std::swap(perm[i], perm[r.below(i + 1)]);
            Json pj = Json::arr(); for (int x : perm) pj.push(x); t.set("perm", pj);
            Json cj = Json::arr(); int mm = 3 * n + 40; for (int i = 0; i < std::min(mm, 60); i++) cj.push((long)r.below(mm)); t.set("cperm", cj);
            ops.push(t);
        }
    }
    s.set("ops", ops);
    return s;
}

static Json genVpscPlan(const std::string &prop, uint64_t seed, const std::string &tier) {
    Rng r(Rng::mix(seed, "plan"));
    Json p = planSkeleton(prop, "vpsc", seed, r);
    int ns = r.range(1, 3);
    Json ss = Json::arr();
    for (int i = 0; i < ns; i++) ss.push(genSolverSession(r, tier));
    p.set("sessions", ss);
    return p;
}
static GenRegistrar g1("C01", genVpscPlan), g2("C02", genVpscPlan);
