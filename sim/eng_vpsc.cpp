// E-VPSC: solver sessions (live IncSolver histories, static Solver one-shots,
// permuted twins; libvpsc and libavoid's private copy) and overlap-removal
// sessions.  Serves C01, C02, C09 (+C15, C20).
#include "core.h"
#include "sigs.h"
#include "oracle_qp.h"
#include "libvpsc/solve_VPSC.h"
#include "libvpsc/variable.h"
#include "libvpsc/constraint.h"
#include "libvpsc/exceptions.h"
#include "libvpsc/rectangle.h"
#include "libvpsc/assertions.h"
#include "libavoid/vpsc.h"
#include "libavoid/assertions.h"

struct VpscNS {
    typedef vpsc::Variable Var; typedef vpsc::Constraint Con; typedef vpsc::IncSolver Inc;
    typedef vpsc::Variables Vars; typedef vpsc::Constraints Cons;
    typedef vpsc::UnsatisfiedConstraint Unsat;
    static const char *name() { return "vpsc"; }
};
struct AvoidNS {
    typedef Avoid::Variable Var; typedef Avoid::Constraint Con; typedef Avoid::IncSolver Inc;
    typedef Avoid::Variables Vars; typedef Avoid::Constraints Cons;
    typedef Avoid::UnsatisfiedConstraint Unsat;
    static const char *name() { return "avoid"; }
};

static QCon conFrom(const Json &j) { return QCon{(int)j[0].i(), (int)j[1].i(), j[2].num(), j[3].i() != 0}; }

template <class NS> struct SolverSession : Session {
    QProb model;
    typename NS::Vars vs;
    typename NS::Cons cs;
    typename NS::Inc *solver = nullptr;
    bool dead = false;

    void teardown() {
        LibScope ls;
        delete solver; solver = nullptr;
        for (auto c : cs) delete c;
        for (auto v : vs) delete v;
        cs.clear(); vs.clear();
    }
    double scale() const { double sc = 1; for (double d : model.d) sc = std::max(sc, std::fabs(d)); for (auto &c : model.cs) sc = std::max(sc, std::fabs(c.g)); return sc; }

    template <class F> std::string guarded(F fn) {
        // run a library call; return "" or the kind of exception that escaped
        try { LibScope ls; fn(); }
        catch (typename NS::Unsat &) { return "UnsatisfiedConstraint"; }
        catch (vpsc::UnsatisfiedConstraint &) { return "UnsatisfiedConstraint"; }
        catch (char *) { return "char*"; }
        catch (const char *) { return "char*"; }
        catch (vpsc::CriticalFailure &f) { HarnessScope hs; return assertSig(f); }
        catch (std::exception &e) { return std::string("std::exception"); }
        catch (...) { return "unknown"; }
        return "";
    }

    // C01 oracle on reported positions
    void checkC01(const std::vector<double> &x, const std::vector<bool> &flagged, const char *who, bool ineqOnlyScale1) {
        int m = (int)model.cs.size();
        bool anyflag = false;
        for (int k = 0; k < m; k++) {
            if (flagged[k]) { anyflag = true; continue; }
            const QCon &c = model.cs[k];
            double lhs = model.s[c.l] * x[c.l] + c.g, rhs = model.s[c.r] * x[c.r];
            if (lhs > rhs + 1e-6 || (c.eq && std::fabs(lhs - rhs) > 1e-6)) {
                std::string sig = std::string(who) + ":unflagged-constraint-violated";
                if (!strcmp(who, "static") && c.eq && rhs - lhs > 1e-6) sig = "static-equality-slack";
                violate("C01", "satisfied", sig, fmt("constraint %d: v%d*%g+%g=%g vs v%d*%g=%g eq=%d", k, c.l, model.s[c.l], c.g, lhs, c.r, model.s[c.r], rhs, (int)c.eq));
                break;
            }
        }
        for (size_t i = 0; i < x.size(); i++) if (!std::isfinite(x[i])) { violate("C01", "finite", std::string(who) + ":non-finite", fmt("v%zu", i)); break; }
        if (ineqOnlyScale1) {
            bool feas = qpFeasible(model);
            if (anyflag && feas) violate("C01", "flag-iff-infeasible", std::string(who) + ":flagged-but-feasible", "");
            if (!anyflag && !feas) violate("C01", "flag-iff-infeasible", std::string(who) + ":infeasible-none-flagged", "");
            probe(feas ? "vpsc.feasible" : "vpsc.infeasible");
        }
    }

    void run() override {
        const Json &cfg = spec["cfg"];
        for (auto &v : cfg["vars"].a) { model.d.push_back(v[0].num()); model.w.push_back(v[1].num(1)); model.s.push_back(v[2].num(1)); }
        int n = (int)model.d.size();
        for (auto &c : cfg["cons"].a) { QCon q = conFrom(c); if (q.l < n && q.r < n && q.l != q.r) model.cs.push_back(q); }
        {
            LibScope ls;
            for (int i = 0; i < n; i++) vs.push_back(new typename NS::Var(i, model.d[i], model.w[i], model.s[i]));
            for (auto &c : model.cs) cs.push_back(new typename NS::Con(vs[c.l], vs[c.r], c.g, c.eq));
        }
        std::string ex = guarded([&] { solver = new typename NS::Inc(vs, cs); });
        if (!ex.empty()) { probe(("vpsc.ctor-threw:" + ex).c_str()); dead = true; }
        const Json &ops = spec["ops"];
        for (size_t oi = 0; oi < ops.size() && !dead; oi++) {
            curOp = (int)oi;
            const Json &op = ops[oi];
            std::string o = op.str("op", "");
            w->log.ev(o.c_str(), id, (long)oi);
            if (o == "add") {
                for (auto &cj : op["cons"].a) {
                    QCon q = conFrom(cj);
                    if (q.l >= n || q.r >= n || q.l == q.r) continue;
                    model.cs.push_back(q);
                    std::string e2 = guarded([&] {
                        auto *nc = new typename NS::Con(vs[q.l], vs[q.r], q.g, q.eq);
                        cs.push_back(nc);               // the solver keeps a reference to this vector
                        solver->addConstraint(nc);
                    });
                    if (!e2.empty()) { violate("C01", "threw", std::string("inc-add-threw:") + e2, ""); dead = true; break; }
                    probe("vpsc.addConstraint");
                }
            } else if (o == "desired") {
                for (auto &dj : op["set"].a) {
                    int i = (int)dj[0].i();
                    if (i >= n) continue;
                    model.d[i] = dj[1].num();
                    vs[i]->desiredPosition = model.d[i];
                    // [i, desired, weight]: the weight of a variable of the live solver is changed too -- what gradient projection does
                    // when it pins a node (fixPos: desired position and a weight of 100000) and releases it again
                    if (dj.size() >= 3 && dj[2].num() > 0) { model.w[i] = dj[2].num(); vs[i]->weight = model.w[i]; probe("vpsc.weight-changed-on-live-solver"); }
                }
                probe("vpsc.desired-moved");
            } else if (o == "solve" || o == "satisfy") {
                bool isSolve = o == "solve";
                std::string e2 = guarded([&] { if (isSolve) solver->solve(); else solver->satisfy(); });
                if (!e2.empty()) {
                    w->fault("exception");
                    violate("C01", "threw", "inc-threw:" + e2, o);
                    if (e2.rfind("assert@", 0) == 0) { probe(e2.c_str()); violate("C15", "assert", e2, o); }
                    dead = true;
                    break;
                }
                int m = (int)model.cs.size();
                std::vector<bool> flagged(m, false);
                bool anyflag = false, ineqOnly = true, scale1 = true;
                for (int k = 0; k < m; k++) { if (cs[k]->unsatisfiable) { flagged[k] = true; anyflag = true; } if (model.cs[k].eq) ineqOnly = false; }
                for (double s : model.s) if (s != 1) scale1 = false;
                std::vector<double> x(n);
                for (int i = 0; i < n; i++) x[i] = vs[i]->finalPosition;
                record(x, true);
                for (int k = 0; k < m; k++) w->log.mixv(flagged[k]);
                if (anyflag) probe("vpsc.flagged");
                if (oi > 0) probe(isSolve ? "vpsc.re-solve" : "vpsc.re-satisfy");
                if (armed("C01")) checkC01(x, flagged, "inc", ineqOnly && scale1);
                if (armed("C02") && isSolve && !anyflag) {
                    std::vector<double> opt;
                    int ok = 0;
                    if (isChain(model)) { ok = chainOptimum(model, opt); if (ok) probe("vpsc.chain-oracle"); }
                    if (!ok) ok = qpSolve(model, opt, flagged, n > 40 ? 60000 : 300000);
                    if (!ok) probe("vpsc.oracle-no-verdict");
                    else {
                        probe("vpsc.optimum-compared");
                        double sc = scale(), md = 0;
                        for (int i = 0; i < n; i++) md = std::max(md, std::fabs(opt[i] - x[i]));
                        if (md > 1e-5 * sc * 10 && qpCost(model, x) > qpCost(model, opt) * (1 + 1e-9) + 1e-9) {
                            // classifier: does the same live solver get there with more satisfy() calls?
                            double c0 = qpCost(model, x), copt = qpCost(model, opt);
                            bool converged = false;
                            for (int t = 0; t < 10 && !converged; t++) {
                                std::string e3 = guarded([&] { solver->satisfy(); });
                                if (!e3.empty()) break;
                                double md2 = 0;
                                for (int i = 0; i < n; i++) md2 = std::max(md2, std::fabs(opt[i] - vs[i]->finalPosition));
                                if (md2 <= 1e-5 * sc * 10) converged = true;
                            }
                            violate("C02", "optimum", converged ? "premature-termination" : "wrong-optimum",
                                    fmt("max |x-x*|=%g cost %.9g optimum %.9g (ns=%s)", md, c0, copt, NS::name()));
                        }
                    }
                }
            } else if (o == "twin") {
                // same problem, permuted ids and constraint order, fresh solver: order independence
                if (!armed("C02") && !armed("C20")) continue;
                std::vector<int> perm; for (auto &pj : op["perm"].a) perm.push_back((int)pj.i());
                std::vector<int> cperm; for (auto &pj : op["cperm"].a) cperm.push_back((int)pj.i());
                if ((int)perm.size() != n) { perm.resize(n); for (int i = 0; i < n; i++) perm[i] = i; }
                int m = (int)model.cs.size();
                std::vector<int> order;
                std::vector<bool> used(m, false);
                for (int c : cperm) if (c >= 0 && c < m && !used[c]) { used[c] = true; order.push_back(c); }
                for (int c = 0; c < m; c++) if (!used[c]) order.push_back(c);
                bool allScale1 = true; for (double sc1 : model.s) if (sc1 != 1) allScale1 = false;
                double shift = allScale1 ? op.num("shift", 0) : 0;
                if (shift != 0) probe("vpsc.twin-translated");
                typename NS::Vars tv(n); typename NS::Cons tc;
                std::vector<double> xa(n), xb(n);
                bool flagA = false, flagB = false;
                std::string e2 = guarded([&] {
                    // reference: identity order
                    typename NS::Vars rv; typename NS::Cons rc;
                    for (int i = 0; i < n; i++) rv.push_back(new typename NS::Var(i, model.d[i], model.w[i], model.s[i]));
                    for (auto &c : model.cs) rc.push_back(new typename NS::Con(rv[c.l], rv[c.r], c.g, c.eq));
                    { typename NS::Inc s(rv, rc); s.solve(); }
                    for (int i = 0; i < n; i++) xa[i] = rv[i]->finalPosition;
                    for (auto c : rc) { flagA |= c->unsatisfiable; delete c; }
                    for (auto v : rv) delete v;
                    // permuted: variable i gets id perm[i] and sits at index perm[i]
                    // ... and, for scale-1 problems, translated by an exactly representable offset (frame clause of C20)
                    for (int i = 0; i < n; i++) tv[perm[i]] = new typename NS::Var(perm[i], model.d[i] + shift, model.w[i], model.s[i]);
                    for (int k : order) { const QCon &c = model.cs[k]; tc.push_back(new typename NS::Con(tv[perm[c.l]], tv[perm[c.r]], c.g, c.eq)); }
                    { typename NS::Inc s(tv, tc); s.solve(); }
                    for (int i = 0; i < n; i++) xb[i] = tv[perm[i]]->finalPosition - shift;
                    for (auto c : tc) { flagB |= c->unsatisfiable; delete c; }
                    for (auto v : tv) delete v;
                });
                if (!e2.empty()) { probe("vpsc.twin-threw"); continue; }
                probe("vpsc.twin");
                if (!flagA && !flagB) {
                    double sc = scale(), md = 0;
                    for (int i = 0; i < n; i++) md = std::max(md, std::fabs(xa[i] - xb[i]));
                    if (md > 1e-5 * sc * 10) violate("C02", "order-independence", "permuted-twin-differs", fmt("max diff %g", md));
                    if (md > 1e-5 * sc * 10) violate("C20", "frame", shift != 0 ? "vpsc-translation-or-permutation-changes-solution" : "vpsc-permutation-changes-solution", fmt("max diff %g (shift %g)", md, shift));
                }
            } else if (o == "static") {
                // one-shot static solver on the current problem (fresh variables)
                if constexpr (std::is_same<NS, VpscNS>::value) {
                    int m = (int)model.cs.size();
                    vpsc::Variables sv; vpsc::Constraints sc_;
                    std::vector<double> x(n);
                    std::vector<bool> flagged(m, false);
                    std::string e2 = guarded([&] {
                        for (int i = 0; i < n; i++) sv.push_back(new vpsc::Variable(i, model.d[i], model.w[i], model.s[i]));
                        for (auto &c : model.cs) sc_.push_back(new vpsc::Constraint(sv[c.l], sv[c.r], c.g, c.eq));
                        vpsc::Solver s(sv, sc_);
                        if (op.boolean("satisfy", false)) s.satisfy(); else s.solve();
                    });
                    for (int i = 0; i < n && i < (int)sv.size(); i++) x[i] = sv[i]->finalPosition;
                    for (int k = 0; k < m && k < (int)sc_.size(); k++) flagged[k] = sc_[k]->unsatisfiable;
                    { LibScope ls; for (auto c : sc_) delete c; for (auto v : sv) delete v; }
                    bool ineqOnly = true, scale1 = true;
                    for (auto &c : model.cs) if (c.eq) ineqOnly = false;
                    for (double s : model.s) if (s != 1) scale1 = false;
                    // acyclic as a directed graph?
                    bool dag = true;
                    {
                        std::vector<int> indeg(n, 0); std::vector<std::vector<int>> adj(n);
                        for (auto &c : model.cs) { adj[c.l].push_back(c.r); indeg[c.r]++; }
                        std::vector<int> q; for (int i = 0; i < n; i++) if (!indeg[i]) q.push_back(i);
                        size_t seen = 0;
                        while (!q.empty()) { int u = q.back(); q.pop_back(); seen++; for (int v2 : adj[u]) if (!--indeg[v2]) q.push_back(v2); }
                        dag = seen == (size_t)n;
                    }
                    probe(dag ? "vpsc.static-dag" : "vpsc.static-cyclic");
                    if (!e2.empty()) {
                        w->fault("exception");
                        bool feas = scale1 ? qpFeasible(model) : true;
                        if (e2.rfind("assert@", 0) == 0) { probe(e2.c_str()); violate("C15", "assert", e2, "static"); }
                        else if (dag && feas) violate("C01", "threw", "static-threw-on-feasible-dag:" + e2, "");
                        else if (!dag && feas && scale1) violate("C01", "threw", "static-threw-on-feasible-cyclic", e2);
                        // infeasible input: throwing is how the static solver reports it
                    } else {
                        record(x, true);
                        if (armed("C01")) checkC01(x, flagged, "static", false);
                        bool anyflag = false; for (bool b : flagged) anyflag |= b;
                        if (armed("C02") && !anyflag && dag && !op.boolean("satisfy", false)) {
                            std::vector<double> opt;
                            if (qpSolve(model, opt, flagged, n > 40 ? 60000 : 300000)) {
                                probe("vpsc.static-optimum-compared");
                                bool feasibleResult = true;
                                for (auto &c : model.cs) { double lhs = model.s[c.l] * x[c.l] + c.g, rhs = model.s[c.r] * x[c.r]; if (lhs > rhs + 1e-6 || (c.eq && std::fabs(lhs - rhs) > 1e-6)) feasibleResult = false; }
                                double sc = scale(), md = 0;
                                for (int i = 0; i < n; i++) md = std::max(md, std::fabs(opt[i] - x[i]));
                                if (feasibleResult && md > 1e-5 * sc * 10 && qpCost(model, x) > qpCost(model, opt) * (1 + 1e-9) + 1e-9)
                                    violate("C02", "optimum", scale1 ? "static-wrong-optimum" : "static-wrong-optimum:scaled-variables", fmt("max |x-x*|=%g cost %.9g optimum %.9g", md, qpCost(model, x), qpCost(model, opt)));
                            }
                        }
                    }
                }
            }
            yield("op");
        }
        curOp = -1;
        teardown();
    }
};

static Session *mkVpsc() { return new SolverSession<VpscNS>(); }
static Session *mkAvoidVpsc() { return new SolverSession<AvoidNS>(); }
static SessionRegistrar r1("vpsc", mkVpsc), r2("avoidvpsc", mkAvoidVpsc);

// ---------------------------------------------------------------- generator
Json genSolverSession(Rng &r, const std::string &tier, int forceNs = -1) {
    Json s = Json::obj();
    bool avoidNs = forceNs >= 0 ? forceNs == 1 : r.chance(0.3);
    s.set("kind", avoidNs ? "avoidvpsc" : "vpsc");
    if (r.chance(tier == "thorough" ? 0.08 : 0.04)) {
        // long chain on one live solver: first everything collapses into one block, then the desired positions spread out so
        // that every active constraint (hundreds) has to be released by one solve(), then they come back
        int n = r.range(120, 320);
        std::vector<double> ws{1, 1, 1, 2, 10, 0.5};
        Json vars = Json::arr(), cons = Json::arr();
        for (int i = 0; i < n; i++) { Json v = Json::arr(); v.push((double)r.range(-3, 3)); v.push(r.pick(ws)); v.push(1.0); vars.push(v); }
        for (int i = 0; i + 1 < n; i++) { Json c = Json::arr(); c.push(i); c.push(i + 1); c.push((double)r.range(0, 3)); c.push(0); cons.push(c); }
        Json cfg = Json::obj(); cfg.set("vars", vars); cfg.set("cons", cons); cfg.set("style", "chain"); s.set("cfg", cfg);
        Json ops = Json::arr();
        auto solve = [&] { Json o = Json::obj(); o.set("op", "solve"); ops.push(o); };
        auto desiredAll = [&](int mode) {
            Json o = Json::obj(); o.set("op", "desired"); Json sl = Json::arr();
            for (int i = 0; i < n; i++) { Json e = Json::arr(); e.push(i); e.push(mode == 0 ? (double)i * 10 + r.range(-2, 2) : mode == 1 ? (double)r.range(-10, 10) : (double)(n - i) * 5); sl.push(e); }
            o.set("set", sl); ops.push(o);
        };
        solve();
        int rounds = r.range(1, 3);
        for (int k = 0; k < rounds; k++) { desiredAll((int)r.below(3)); solve(); }
        s.set("ops", ops);
        return s;
    }
    bool cycles = r.chance(0.5), equalities = r.chance(0.4), scales = r.chance(0.25), dups = r.chance(0.3);
    bool large = tier == "thorough" && r.chance(0.1);
    int n = large ? r.range(20, 200) : r.range(2, 12);
    Json vars = Json::arr();
    std::vector<double> ws{1, 1, 1, 2, 10, 0.5, 1000}, ss{1, 1, 2, 0.5, 3};
    // swarm member: tenths instead of integers -- sums like 0.1 + 0.2 versus 0.3 put exact ties a rounding error apart
    // (slacks of -5e-17 instead of 0), the regime of the solvers' zero thresholds
    bool tenths = r.chance(0.2);
    for (int i = 0; i < n; i++) {
        Json v = Json::arr();
        v.push(tenths ? (double)r.range(-30, 30) * 0.1 + (r.chance(0.3) ? 0.1 + 0.2 : 0.0) : (double)r.range(-10, 10) * (large ? 5 : 1));
        v.push(r.pick(ws));
        v.push(scales ? r.pick(ss) : 1.0);
        vars.push(v);
    }
    auto genCon = [&]() {
        for (;;) {
            int a = (int)r.below(n), b = (int)r.below(n);
            if (a == b) continue;
            if (!cycles && a > b) std::swap(a, b);
            Json c = Json::arr();
            c.push(a); c.push(b); c.push(tenths ? (double)r.range(-6, 12) * 0.1 : (double)r.range(-2, 6)); c.push(equalities && r.chance(0.17) ? 1 : 0);
            return c;
        }
    };
    Json cons = Json::arr();
    int m = (int)r.below(n + 2 + (large ? n : 0));
    for (int k = 0; k < m; k++) { Json c = genCon(); cons.push(c); if (dups && r.chance(0.2)) cons.push(c); }
    Json cfg = Json::obj(); cfg.set("vars", vars); cfg.set("cons", cons);
    s.set("cfg", cfg);
    Json ops = Json::arr();
    int steps = r.range(1, large ? 5 : 10);
    for (int st = 0; st < steps; st++) {
        if (st > 0) {
            int what = (int)r.below(3);
            if (what == 0 || what == 2) {
                Json o = Json::obj(); o.set("op", "add"); Json cl = Json::arr();
                int k = r.range(1, 3); for (int j = 0; j < k; j++) cl.push(genCon());
                o.set("cons", cl); ops.push(o);
            }
            if (what >= 1) {
                Json o = Json::obj(); o.set("op", "desired"); Json sl = Json::arr();
                int k = r.range(1, std::min(n, 8));
                Rng r2(Rng::mix(r.s, "live-weight"));       // side stream: the desired positions drawn stay what they were
                bool withWeights = r2.chance(0.35);
                for (int j = 0; j < k; j++) { Json e = Json::arr(); e.push((long)r.below(n)); e.push(tenths ? (double)r.range(-40, 40) * 0.1 : (double)r.range(-20, 20) * (large ? 5 : 1)); if (withWeights && r2.chance(0.6)) e.push(r2.pick(std::vector<double>{0.5, 1, 2, 3, 10, 1000})); sl.push(e); }
                o.set("set", sl); ops.push(o);
            }
        }
        Json o = Json::obj(); o.set("op", r.chance(0.75) ? "solve" : "satisfy"); ops.push(o);
        if (!avoidNs && r.chance(0.15)) { Json t = Json::obj(); t.set("op", "static"); if (r.chance(0.2)) t.set("satisfy", true); ops.push(t); }
        if (r.chance(0.15)) {
            Json t = Json::obj(); t.set("op", "twin");
            std::vector<int> perm(n); for (int i = 0; i < n; i++) perm[i] = i;
            for (int i = n - 1; i > 0; i--) std::swap(perm[i], perm[r.below(i + 1)]);
            Json pj = Json::arr(); for (int x : perm) pj.push(x); t.set("perm", pj);
            if (r.chance(0.5)) t.set("shift", (double)r.range(-200000, 200000) / 1024.0);
            Json cj = Json::arr(); int mm = 3 * n + 40; for (int i = 0; i < std::min(mm, 60); i++) cj.push((long)r.below(mm)); t.set("cperm", cj);
            ops.push(t);
        }
    }
    s.set("ops", ops);
    return s;
}

static Json genVpscPlan(const std::string &prop, uint64_t seed, const std::string &tier) {
    Rng r(Rng::mix(seed, "plan"));
    Json p = planSkeleton(prop, "vpsc", seed, r);
    int ns = r.range(1, 3);
    Json ss = Json::arr();
    for (int i = 0; i < ns; i++) ss.push(genSolverSession(r, tier));
    p.set("sessions", ss);
    return p;
}
static GenRegistrar g1("C01", genVpscPlan), g2("C02", genVpscPlan);

// =====================================================================
// overlap-removal session (C09; digest feeds C20)
// =====================================================================
struct OverlapSession : Session {
    vpsc::Rectangles rs;
    std::vector<double> W, H;
    void checkSizes(const char *after) {
        for (size_t i = 0; i < rs.size(); i++)
            if (std::fabs(rs[i]->width() - 2 * vpsc::Rectangle::xBorder - W[i]) > 1e-9 || std::fabs(rs[i]->height() - 2 * vpsc::Rectangle::yBorder - H[i]) > 1e-9) {     // width()/height() include the client's border
                violate("C09", "size", std::string("size-changed-by-") + after, fmt("rect %zu: %gx%g -> %gx%g", i, W[i], H[i], rs[i]->width(), rs[i]->height()));
                break;
            }
    }
    static bool overlapPos(const vpsc::Rectangle *a, const vpsc::Rectangle *b, double tol, double *ox = nullptr, double *oy = nullptr) {
        double x = std::min(a->getMaxX(), b->getMaxX()) - std::max(a->getMinX(), b->getMinX());
        double y = std::min(a->getMaxY(), b->getMaxY()) - std::max(a->getMinY(), b->getMinY());
        if (ox) *ox = x; if (oy) *oy = y;
        return x > tol && y > tol;
    }
    void run() override {
        const Json &cfg = spec["cfg"];
        {
            LibScope ls;
            for (auto &rj : cfg["rects"].a) {
                double x = rj[0].num(), y = rj[1].num(), wd = rj[2].num(), h = rj[3].num();
                rs.push_back(new vpsc::Rectangle(x, x + wd, y, y + h));
                W.push_back(wd); H.push_back(h);
            }
        }
        int n = (int)rs.size();
        const Json &ops = spec["ops"];
        for (size_t oi = 0; oi < ops.size(); oi++) {
            curOp = (int)oi;
            const Json &op = ops[oi];
            std::string o = op.str("op", "");
            w->log.ev(o.c_str(), id, (long)oi);
            if (o == "move") {
                for (auto &mj : op["set"].a) { int i = (int)mj[0].i(); if (i < n) { rs[i]->moveCentreX(mj[1].num()); rs[i]->moveCentreY(mj[2].num()); } }
            } else if (o == "removeoverlaps") {
                // the client's own border setting (process-global): in force during the call, must be in force after it.
                // Set and withdrawn inside this op (no yield in between): other sessions never see it.
                double cbx = op["border"].size() == 2 ? op["border"][0].num() : 0, cby = op["border"].size() == 2 ? op["border"][1].num() : 0;
                struct BorderGuard { ~BorderGuard() { vpsc::Rectangle::setXBorder(0); vpsc::Rectangle::setYBorder(0); } } borderGuard;
                vpsc::Rectangle::setXBorder(cbx); vpsc::Rectangle::setYBorder(cby);
                if (cbx != 0 || cby != 0) probe("overlap.client-border");
                std::set<unsigned> fixed;
                for (auto &fj : op["fixed"].a) if (fj.i() < n) fixed.insert((unsigned)fj.i());
                // fixed rectangles must not overlap one another, else the request is unsatisfiable
                for (auto i = fixed.begin(); i != fixed.end();) {
                    bool ov = false;
                    for (auto j : fixed) if (j < *i && overlapPos(rs[*i], rs[j], 0)) ov = true;
                    if (ov) i = fixed.erase(i); else ++i;
                }
                bool third = op.boolean("third", false);
                std::vector<double> X0(n), Y0(n);
                bool hadOverlap = false, ties = false;
                for (int i = 0; i < n; i++) { X0[i] = rs[i]->getCentreX(); Y0[i] = rs[i]->getCentreY(); }
                for (int i = 0; i < n; i++) for (int j = i + 1; j < n; j++) { if (overlapPos(rs[i], rs[j], 1e-9)) hadOverlap = true; if (X0[i] == X0[j] || Y0[i] == Y0[j]) ties = true; }
                double bx = vpsc::Rectangle::xBorder, by = vpsc::Rectangle::yBorder;
                std::string ex;
                try {
                    LibScope ls;
                    int mode = (int)op.i("api", 0);
                    if (mode == 1 && fixed.empty() && !third) vpsc::removeoverlaps(rs);
                    else if (mode == 2 && !third) vpsc::removeoverlaps(rs, fixed);
                    else vpsc::removeoverlaps(rs, fixed, third);
                } catch (vpsc::CriticalFailure &f) { HarnessScope hs; ex = assertSig(f); }
                catch (vpsc::UnsatisfiedConstraint &) { ex = "UnsatisfiedConstraint"; }
                catch (...) { ex = "exception"; }
                if (hadOverlap) probe("overlap.had-overlap");
                if (ties) probe("overlap.scanline-ties");
                if (!fixed.empty()) probe("overlap.with-fixed");
                if (third) probe("overlap.third-pass");
                if (vpsc::Rectangle::xBorder != bx || vpsc::Rectangle::yBorder != by) {
                    violate("C09", "borders", ex.empty() ? "borders-not-restored" : "borders-not-restored-after-" + ex, fmt("x %g->%g y %g->%g", bx, vpsc::Rectangle::xBorder, by, vpsc::Rectangle::yBorder));
                    vpsc::Rectangle::setXBorder(bx); vpsc::Rectangle::setYBorder(by);       // judge the placement with the client's borders (getMin/getMax include them)
                }
                if (!ex.empty()) {
                    w->fault("exception");
                    if (ex.rfind("assert@", 0) == 0) { probe(ex.c_str()); violate("C15", "assert", ex, "removeoverlaps"); }
                    violate("C09", "threw", "removeoverlaps-threw:" + ex, "");
                    continue;
                }
                checkSizes("removeoverlaps");
                double avg = 0; for (int i = 0; i < n; i++) avg += (W[i] + H[i]) / 2; avg /= std::max(n, 1);
                for (auto i : fixed) {
                    double d = std::hypot(rs[i]->getCentreX() - X0[i], rs[i]->getCentreY() - Y0[i]);
                    if (d > 0.01 * avg) {
                        // classifier: "fixed" is a weight of 10000, so by force balance a single fixed rectangle moves at most
                        // (sum of the free rectangles' displacements)/10000 per axis; more than that is a different defect
                        double sx = 0, sy = 0;
                        for (int k = 0; k < n; k++) if (!fixed.count(k)) { sx += std::fabs(rs[k]->getCentreX() - X0[k]); sy += std::fabs(rs[k]->getCentreY() - Y0[k]); }
                        bool soft = std::fabs(rs[i]->getCentreX() - X0[i]) <= 1.05 * sx / 10000 + 1e-9 && std::fabs(rs[i]->getCentreY() - Y0[i]) <= 1.05 * sy / 10000 + 1e-9;
                        violate("C09", "fixed", fixed.size() >= 2 ? "fixed-moved:>=2-fixed" : soft ? "fixed-moved:1-fixed:within-soft-weight-bound" : "fixed-moved:1-fixed",
                                fmt("rect %u moved %g (avg size %g, %zu fixed, free displacement sum %g,%g)", i, d, avg, fixed.size(), sx, sy));
                        break;
                    }
                }
                bool bad = false;
                for (int i = 0; i < n && !bad; i++) for (int j = i + 1; j < n && !bad; j++) {
                    double ox, oy;
                    if (overlapPos(rs[i], rs[j], 1e-6, &ox, &oy)) { bad = true; violate("C09", "overlap", fixed.size() >= 2 ? "overlap-left:>=2-fixed" : "overlap-left", fmt("rects %d,%d overlap %g x %g (n=%d third=%d fixed=%zu)", i, j, ox, oy, n, (int)third, fixed.size())); }
                }
                std::vector<double> out;
                for (int i = 0; i < n; i++) { out.push_back(rs[i]->getCentreX()); out.push_back(rs[i]->getCentreY()); }
                record(out, true);
            } else if (o == "gencons") {
                bool dimX = op.str("dim", "x") == "x";
                vpsc::Variables vars; vpsc::Constraints cons;
                std::string ex;
                try {
                    LibScope ls;
                    for (int i = 0; i < n; i++) vars.push_back(new vpsc::Variable(i, 0, 1));
                    if (dimX) vpsc::generateXConstraints(rs, vars, cons, false);
                    else vpsc::generateYConstraints(rs, vars, cons);
                } catch (...) { ex = "exception"; }
                if (ex.empty()) {
                    probe(dimX ? "overlap.genX" : "overlap.genY");
                    QProb q;
                    for (int i = 0; i < n; i++) { q.d.push_back(op["desired"][(size_t)i].num(dimX ? rs[i]->getCentreX() : rs[i]->getCentreY())); q.w.push_back(1); q.s.push_back(1); }
                    for (auto c : cons) q.cs.push_back(QCon{(int)c->left->id, (int)c->right->id, c->gap, c->equality});
                    for (auto c : cons) { w->log.mixv((uint64_t)c->left->id * 1000 + c->right->id); w->log.d(c->gap); }
                    if (!qpFeasible(q)) violate("C09", "acyclic", dimX ? "genX-cyclic" : "genY-cyclic", fmt("%zu constraints", cons.size()));
                    else {
                        std::vector<double> x; std::vector<bool> skip(q.cs.size(), false);
                        if (qpSolve(q, x, skip, 100000)) {
                            // apply the projected placement in this dimension to copies and test all pairs
                            bool bad = false;
                            for (int i = 0; i < n && !bad; i++) for (int j = i + 1; j < n && !bad; j++) {
                                double loi = dimX ? x[i] - W[i] / 2 : rs[i]->getMinX(), hii = dimX ? x[i] + W[i] / 2 : rs[i]->getMaxX();
                                double loj = dimX ? x[j] - W[j] / 2 : rs[j]->getMinX(), hij = dimX ? x[j] + W[j] / 2 : rs[j]->getMaxX();
                                double loi2 = dimX ? rs[i]->getMinY() : x[i] - H[i] / 2, hii2 = dimX ? rs[i]->getMaxY() : x[i] + H[i] / 2;
                                double loj2 = dimX ? rs[j]->getMinY() : x[j] - H[j] / 2, hij2 = dimX ? rs[j]->getMaxY() : x[j] + H[j] / 2;
                                double o1 = std::min(hii, hij) - std::max(loi, loj), o2 = std::min(hii2, hij2) - std::max(loi2, loj2);
                                if (o1 > 1e-6 && o2 > 1e-6) { bad = true; violate("C09", "constraints-imply-no-overlap", dimX ? "genX-placement-overlaps" : "genY-placement-overlaps", fmt("rects %d,%d overlap %g x %g under a placement satisfying all %zu generated constraints", i, j, o1, o2, cons.size())); }
                            }
                            probe("overlap.projection-checked");
                        }
                    }
                }
                { LibScope ls; for (auto c : cons) delete c; for (auto v : vars) delete v; }
            }
            yield("op");
        }
        curOp = -1;
        { LibScope ls; for (auto r : rs) delete r; rs.clear(); }
    }
};
static Session *mkOverlap() { return new OverlapSession(); }
static SessionRegistrar r3("overlap", mkOverlap);

Json genOverlapSession(Rng &r, const std::string &tier) {
    Json s = Json::obj(); s.set("kind", "overlap");
    bool large = tier == "thorough" && r.chance(0.15);
    int n = large ? r.range(30, 200) : r.range(2, 14);
    int style = (int)r.below(6);
    Json rects = Json::arr();
    for (int i = 0; i < n; i++) {
        double wd, h, x, y;
        switch (style) {
        case 0: wd = 10 + r.below(5) * 5; h = 10 + r.below(5) * 5; x = (double)r.below(large ? 300 : 60); y = (double)r.below(large ? 300 : 60); break;     // random
        case 1: wd = 20; h = 20; x = (double)r.below(3) * 10; y = (double)r.below(3) * 10; break;                                // grid-aligned ties
        case 2: wd = 20; h = 10; x = 50; y = 50; break;                                                                           // identical
        case 3: wd = 5 + r.below(30); h = 5 + r.below(30); x = (double)r.below(100) / 3; y = (double)r.below(100) / 3; break;    // fractional
        case 4: wd = r.chance(0.5) ? 0.001 : 40; h = wd < 1 ? 40 : 0.001; x = (double)r.below(30); y = (double)r.below(30); break; // thin
        default: { double k = 1 + i; wd = 10 * k; h = 10 * k; x = 100 - 5 * k; y = 100 - 5 * k; }                                  // nested, same centre
        }
        Json rj = Json::arr(); rj.push(x); rj.push(y); rj.push(wd); rj.push(h); rects.push(rj);
    }
    Json cfg = Json::obj(); cfg.set("rects", rects); cfg.set("style", fmt("style%d", style)); s.set("cfg", cfg);
    Json ops = Json::arr();
    int steps = r.range(1, 4);
    for (int st = 0; st < steps; st++) {
        if (st > 0 && r.chance(0.7)) {
            Json o = Json::obj(); o.set("op", "move"); Json sl = Json::arr();
            int k = r.range(1, std::min(n, 5));
            for (int j = 0; j < k; j++) { Json e = Json::arr(); e.push((long)r.below(n)); e.push((double)r.below(80)); e.push((double)r.below(80)); sl.push(e); }
            o.set("set", sl); ops.push(o);
        }
        if (r.chance(0.3)) {
            Json o = Json::obj(); o.set("op", "gencons"); o.set("dim", r.chance(0.5) ? "x" : "y");
            Json d = Json::arr(); for (int i = 0; i < n; i++) d.push((double)r.below(100)); o.set("desired", d);
            ops.push(o);
        }
        Json o = Json::obj(); o.set("op", "removeoverlaps");
        Json fx = Json::arr();
        if (r.chance(0.5)) { int k = r.chance(0.75) ? 1 : r.range(2, 3); for (int j = 0; j < k; j++) fx.push((long)r.below(n)); }
        o.set("fixed", fx); o.set("third", r.chance(0.5)); o.set("api", (long)r.below(3));
        if (r.chance(0.25)) { Json b = Json::arr(); b.push(r.pick(std::vector<double>{0, 0.5, 1, 2, 5})); b.push(r.pick(std::vector<double>{0, 0.5, 1, 2, 5})); o.set("border", b); }
        ops.push(o);
    }
    s.set("ops", ops);
    return s;
}
static Json genOverlapPlan(const std::string &prop, uint64_t seed, const std::string &tier) {
    Rng r(Rng::mix(seed, "plan"));
    Json p = planSkeleton(prop, "vpsc", seed, r);
    Json ss = Json::arr();
    int ns = r.range(1, 3);
    for (int i = 0; i < ns; i++) ss.push(r.chance(0.8) ? genOverlapSession(r, tier) : genSolverSession(r, tier));
    if (ss[0].str("kind", "") != "overlap") ss.a[0] = genOverlapSession(r, tier);
    p.set("sessions", ss);
    return p;
}
static GenRegistrar g3("C09", genOverlapPlan);

// cross-session invariant: the global borders are at their idle value whenever any task is parked
static void borderInvariant(World &w, int me) {
    if (vpsc::Rectangle::xBorder != 0 || vpsc::Rectangle::yBorder != 0) {
        Violation v; v.prop = "C09"; v.clause = "borders"; v.sig = "border-nonzero-at-yield";
        v.detail = fmt("xBorder=%g yBorder=%g at a yield of session %d", vpsc::Rectangle::xBorder, vpsc::Rectangle::yBorder, me);
        v.session = me;
        if (w.armed("C09")) w.violate(v);
        vpsc::Rectangle::setXBorder(0); vpsc::Rectangle::setYBorder(0);
    }
}
static YieldInvariantRegistrar yi1(borderInvariant);
