// Independent oracles for separation-constraint problems:
//  * Bellman-Ford feasibility (positive-gap cycle detection) for scale-1 systems
//  * Hildreth dual coordinate ascent for  min sum w_i (x_i-d_i)^2
//    s.t. s_l x_l + g <= s_r x_r  (== for equalities), with a KKT self-check.
#pragma once
#include <vector>
#include <cmath>
#include <algorithm>

struct QCon { int l, r; double g; bool eq; };
struct QProb {
    std::vector<double> d, w, s;
    std::vector<QCon> cs;
};

// true iff the scale-1 system is feasible (equalities count as two inequalities)
static inline bool qpFeasible(const QProb &p) {
    int n = (int)p.d.size();
    std::vector<double> dist(n, 0);
    for (int it = 0; it <= n + 1; it++) {
        bool ch = false;
        for (auto &c : p.cs) {
            if (dist[c.l] + c.g > dist[c.r] + 1e-9) { dist[c.r] = dist[c.l] + c.g; ch = true; }
            if (c.eq && dist[c.r] - c.g > dist[c.l] + 1e-9) { dist[c.l] = dist[c.r] - c.g; ch = true; }
        }
        if (!ch) return true;
    }
    return false;
}

// returns 1 converged + KKT verified, 0 not converged (no verdict)
static inline int qpSolve(const QProb &p, std::vector<double> &x, const std::vector<bool> &skip, int maxIt = 300000) {
    int n = (int)p.d.size(), m = (int)p.cs.size();
    std::vector<double> lam(m, 0);
    x = p.d;
    bool conv = false;
    for (int it = 0; it < maxIt; it++) {
        double maxch = 0;
        for (int k = 0; k < m; k++) {
            if (skip[k]) continue;
            const QCon &c = p.cs[k];
            if (c.l == c.r) continue;
            double sl = p.s[c.l], sr = p.s[c.r];
            double viol = sl * x[c.l] + c.g - sr * x[c.r];
            double q = (sl * sl / p.w[c.l] + sr * sr / p.w[c.r]) / 2;
            double nl = lam[k] + viol / q;
            if (!c.eq && nl < 0) nl = 0;
            double dl = nl - lam[k];
            if (dl != 0) {
                lam[k] = nl;
                x[c.l] -= dl * sl / (2 * p.w[c.l]);
                x[c.r] += dl * sr / (2 * p.w[c.r]);
                if (std::fabs(dl) > maxch) maxch = std::fabs(dl);
            }
        }
        if (maxch < 1e-13) { conv = true; break; }
    }
    if (!conv) return 0;
    // KKT self-check: primal feasibility and complementary slackness
    for (int k = 0; k < m; k++) {
        if (skip[k]) continue;
        const QCon &c = p.cs[k];
        if (c.l == c.r) continue;
        double viol = p.s[c.l] * x[c.l] + c.g - p.s[c.r] * x[c.r];
        if (viol > 1e-7) return 0;
        if (c.eq && std::fabs(viol) > 1e-7) return 0;
        if (!c.eq && lam[k] > 1e-9 && viol < -1e-6) return 0;
        (void)n;
    }
    return 1;
}

static inline double qpCost(const QProb &p, const std::vector<double> &x) {
    double c = 0;
    for (size_t i = 0; i < x.size(); i++) c += p.w[i] * (x[i] - p.d[i]) * (x[i] - p.d[i]);
    return c;
}
