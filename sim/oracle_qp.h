// Independent oracles for separation-constraint problems:
//  * Bellman-Ford feasibility (positive-gap cycle detection) for scale-1 systems
//  * Hildreth dual coordinate ascent for  min sum w_i (x_i-d_i)^2
//    s.t. s_l x_l + g <= s_r x_r  (== for equalities), with a KKT self-check.
#pragma once
#include <vector>
#include <cmath>
#include <algorithm>

struct QCon { int l, r; double g; bool eq; };
struct QProb {
    std::vector<double> d, w, s;
    std::vector<QCon> cs;
};

// true iff the scale-1 system is feasible (equalities count as two inequalities)
static inline bool qpFeasible(const QProb &p) {
    int n = (int)p.d.size();
    std::vector<double> dist(n, 0);
    for (int it = 0; it <= n + 1; it++) {
        bool ch = false;
        for (auto &c : p.cs) {
            if (dist[c.l] + c.g > dist[c.r] + 1e-9) { dist[c.r] = dist[c.l] + c.g; ch = true; }
            if (c.eq && dist[c.r] - c.g > dist[c.l] + 1e-9) { dist[c.l] = dist[c.r] - c.g; ch = true; }
        }
        if (!ch) return true;
    }
    return false;
}

// returns 1 converged + KKT verified, 0 not converged (no verdict)
static inline int qpSolve(const QProb &p, std::vector<double> &x, const std::vector<bool> &skip, int maxIt = 300000) {
    int n = (int)p.d.size(), m = (int)p.cs.size();
    std::vector<double> lam(m, 0);
    x = p.d;
    bool conv = false;
    for (int it = 0; it < maxIt; it++) {
        double maxch = 0;
        for (int k = 0; k < m; k++) {
            if (skip[k]) continue;
            const QCon &c = p.cs[k];
            if (c.l == c.r) continue;
            double sl = p.s[c.l], sr = p.s[c.r];
            double viol = sl * x[c.l] + c.g - sr * x[c.r];
            double q = (sl * sl / p.w[c.l] + sr * sr / p.w[c.r]) / 2;
            double nl = lam[k] + viol / q;
            if (!c.eq && nl < 0) nl = 0;
            double dl = nl - lam[k];
            if (dl != 0) {
                lam[k] = nl;
                x[c.l] -= dl * sl / (2 * p.w[c.l]);
                x[c.r] += dl * sr / (2 * p.w[c.r]);
                if (std::fabs(dl) > maxch) maxch = std::fabs(dl);
            }
        }
        if (maxch < 1e-13) { conv = true; break; }
    }
    if (!conv) return 0;
    // KKT self-check: primal feasibility and complementary slackness
    for (int k = 0; k < m; k++) {
        if (skip[k]) continue;
        const QCon &c = p.cs[k];
        if (c.l == c.r) continue;
        double viol = p.s[c.l] * x[c.l] + c.g - p.s[c.r] * x[c.r];
        if (viol > 1e-7) return 0;
        if (c.eq && std::fabs(viol) > 1e-7) return 0;
        if (!c.eq && lam[k] > 1e-9 && viol < -1e-6) return 0;
        (void)n;
    }
    return 1;
}

// Chains x_0 + g_0 <= x_1, x_1 + g_1 <= x_2, ... (scale 1, inequalities only): the optimum is a weighted isotonic regression
// (pool adjacent violators, exact, O(n)) of the targets d_i - (g_0 + ... + g_{i-1}).
static inline bool isChain(const QProb &p) {
    size_t n = p.d.size();
    if (n < 2 || p.cs.size() != n - 1) return false;
    for (size_t k = 0; k + 1 < n; k++) if (p.cs[k].l != (int)k || p.cs[k].r != (int)k + 1 || p.cs[k].eq) return false;
    for (double s : p.s) if (s != 1) return false;
    return true;
}
static inline int chainOptimum(const QProb &p, std::vector<double> &x) {
    size_t n = p.d.size();
    std::vector<double> G(n, 0);
    for (size_t i = 1; i < n; i++) G[i] = G[i - 1] + p.cs[i - 1].g;
    struct Blk { double wsum, wtsum; size_t cnt; };
    std::vector<Blk> st;
    for (size_t i = 0; i < n; i++) {
        Blk b{p.w[i], p.w[i] * (p.d[i] - G[i]), 1};
        while (!st.empty() && st.back().wtsum / st.back().wsum > b.wtsum / b.wsum) { b.wsum += st.back().wsum; b.wtsum += st.back().wtsum; b.cnt += st.back().cnt; st.pop_back(); }
        st.push_back(b);
    }
    x.assign(n, 0);
    size_t i = 0;
    for (auto &b : st) for (size_t k = 0; k < b.cnt; k++, i++) x[i] = b.wtsum / b.wsum + G[i];
    return i == n;
}

static inline double qpCost(const QProb &p, const std::vector<double> &x) {
    double c = 0;
    for (size_t i = 0; i < x.size(); i++) c += p.w[i] * (x[i] - p.d[i]) * (x[i] - p.d[i]);
    return c;
}
