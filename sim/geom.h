// Harness-side geometry (independent of libavoid's predicates).
#pragma once
#include <vector>
#include <cmath>
#include <algorithm>

struct Pt { double x, y; bool operator==(const Pt &o) const { return x == o.x && y == o.y; } bool operator!=(const Pt &o) const { return !(*this == o); } };
typedef std::vector<Pt> Poly;     // convex, counter-clockwise in a y-up reading (positive shoelace area)
struct RectB { double x, y, w, h; };   // bounding box

static inline double cross3(Pt a, Pt b, Pt c) { return (b.x - a.x) * (c.y - a.y) - (b.y - a.y) * (c.x - a.x); }
static inline double dist2(Pt a, Pt b) { return std::hypot(a.x - b.x, a.y - b.y); }
static inline bool samePt(Pt a, Pt b) { return a.x == b.x && a.y == b.y; }
static inline double polyArea2(const Poly &p) {
    double a = 0;
    for (size_t i = 0; i < p.size(); i++) { const Pt &A = p[i], &B = p[(i + 1) % p.size()]; a += A.x * B.y - B.x * A.y; }
    return a;
}
static inline Poly rectPoly(const RectB &c) { return Poly{{c.x, c.y}, {c.x + c.w, c.y}, {c.x + c.w, c.y + c.h}, {c.x, c.y + c.h}}; }
static inline RectB bbox(const Poly &p) {
    double x0 = 1e300, y0 = 1e300, x1 = -1e300, y1 = -1e300;
    for (auto &q : p) { x0 = std::min(x0, q.x); y0 = std::min(y0, q.y); x1 = std::max(x1, q.x); y1 = std::max(y1, q.y); }
    return RectB{x0, y0, x1 - x0, y1 - y0};
}
static inline bool rectsOverlap(const RectB &a, const RectB &b, double m) {
    return a.x - m < b.x + b.w && b.x - m < a.x + a.w && a.y - m < b.y + b.h && b.y - m < a.y + a.h;
}
// point strictly inside convex CCW polygon (margin>0 shrinks tolerance: inside by more than 'eps' in cross-product units)
static inline bool ptInPolyStrict(Pt p, const Poly &P, double eps = 0) {
    for (size_t i = 0; i < P.size(); i++) if (cross3(P[i], P[(i + 1) % P.size()], p) <= eps) return false;
    return true;
}
static inline bool ptInPolyClosed(Pt p, const Poly &P) {
    for (size_t i = 0; i < P.size(); i++) if (cross3(P[i], P[(i + 1) % P.size()], p) < 0) return false;
    return true;
}
// Does the open segment pq contain a stretch of positive length strictly inside the open convex polygon P?
// Cyrus-Beck clipping against each edge's inner half-plane; exact for integer-grid inputs up to the final comparison.
static inline bool segHitsPoly(Pt p, Pt q, const Poly &P, double tol = 1e-9) {
    double t0 = 0, t1 = 1;
    int n = (int)P.size();
    for (int i = 0; i < n; i++) {
        Pt a = P[i], b = P[(i + 1) % n];
        double dp = cross3(a, b, p), dq = cross3(a, b, q);     // > 0: inside (left of edge)
        if (dp <= 0 && dq <= 0) return false;
        if (dp > 0 && dq > 0) continue;
        double t = dp / (dp - dq);
        if (dp <= 0) { if (t > t0) t0 = t; } else { if (t < t1) t1 = t; }
    }
    return t0 < t1 - tol;
}
// distance from point to segment
static inline double ptSegDist(Pt p, Pt a, Pt b) {
    double dx = b.x - a.x, dy = b.y - a.y, l2 = dx * dx + dy * dy;
    if (l2 == 0) return dist2(p, a);
    double t = ((p.x - a.x) * dx + (p.y - a.y) * dy) / l2;
    t = std::max(0.0, std::min(1.0, t));
    return dist2(p, Pt{a.x + t * dx, a.y + t * dy});
}
static inline double ptPolyDist(Pt p, const Poly &P) {
    if (ptInPolyClosed(p, P)) return 0;
    double d = 1e300;
    for (size_t i = 0; i < P.size(); i++) d = std::min(d, ptSegDist(p, P[i], P[(i + 1) % P.size()]));
    return d;
}
static inline double polyLen(const std::vector<Pt> &r) {
    double l = 0;
    for (size_t i = 1; i < r.size(); i++) l += dist2(r[i - 1], r[i]);
    return l;
}
// drop repeated points and collinear interior points
static inline std::vector<Pt> simplifyRoute(const std::vector<Pt> &r) {
    std::vector<Pt> o;
    for (auto &p : r) {
        if (!o.empty() && samePt(o.back(), p)) continue;
        while (o.size() >= 2) {
            Pt a = o[o.size() - 2], b = o.back();
            double cr = cross3(a, b, p), dt = (b.x - a.x) * (p.x - b.x) + (b.y - a.y) * (p.y - b.y);
            if (cr == 0 && dt >= 0) o.pop_back(); else break;
        }
        o.push_back(p);
    }
    return o;
}
