// E-LAYOUT: cola::ConstrainedFDLayout sessions with a simulated user acting
// through PreIteration / TestConvergence (stop anywhere, interrupt anywhere,
// locks appearing and disappearing mid-run).  Serves C07, C08 (+C15, C20).
#include "core.h"
#include "sigs.h"
#include "mix_gen.h"
#include "libcola/cola.h"
#include "libcola/cluster.h"
#include "libcola/compound_constraints.h"
#include "libvpsc/rectangle.h"
#include "libvpsc/assertions.h"

using namespace cola;

struct LayoutSession;
struct SimConv : TestConvergence {
    LayoutSession *s;
    SimConv(LayoutSession *s, double tol, unsigned maxit) : TestConvergence(tol, maxit), s(s) {}
    bool operator()(const double new_stress, std::valarray<double> &X, std::valarray<double> &Y) override;
};
struct SimPre : PreIteration {
    LayoutSession *s;
    Locks myLocks; Resizes myResizes;
    SimPre(LayoutSession *s) : PreIteration(myLocks, myResizes), s(s) {}
    bool operator()() override;
};

struct LayoutSession : Session {
    vpsc::Rectangles rs;
    std::vector<double> W, H;
    std::vector<Edge> es;
    CompoundConstraints ccs;
    ConstrainedFDLayout *alg = nullptr;
    ConstrainedMajorizationLayout *maj = nullptr;      // cfg.majorization: the stress-majorization layout with the same constraints
    SimConv *conv = nullptr;
    SimPre *pre = nullptr;
    RootCluster *root = nullptr;
    UnsatisfiableConstraintInfos ux, uy;
    // model of the constraints
    struct Sep { int dim; unsigned l, r; double g; bool eq; CompoundConstraint *cc; };
    struct Al { int dim; std::vector<std::pair<unsigned, double>> sh; AlignmentConstraint *ac; };
    struct AP { int dim; int a, b; double sep; bool eq; CompoundConstraint *cc; };
    struct Bd { int dim; std::vector<std::pair<unsigned, double>> sh; CompoundConstraint *cc; };
    struct FR { std::vector<unsigned> ids; std::vector<double> dx, dy; CompoundConstraint *cc; };
    struct PB { double x0, x1, y0, y1; CompoundConstraint *cc; };
    std::vector<Sep> seps; std::vector<Al> als; std::vector<AP> aps; std::vector<Bd> bds; std::vector<FR> frs; std::vector<PB> pbs;
    bool avoidOverlaps = false;
    std::vector<std::vector<unsigned>> exempt;
    struct Cl { std::vector<int> nodes; int parent; double padding, margin; RectangularCluster *ref; int rect = -1; /* >=0: the cluster is built on this node rectangle (RectangularCluster(rectIndex)) */ };
    std::vector<Cl> clusters;
    // fault state of the current op
    int convCalls = 0, preCalls = 0, stopAtIter = 0, interruptAt = 0;
    std::vector<Json> lockEvents;
    bool interrupted = false, madeFeasible = false, completedIteration = false, dead = false, ranOnceSinceProjection = false, lastProjectionByMakeFeasible = false;
    bool dimJudged[2] = {true, true}, lastRunBothAxes = true;
    unsigned maxIter = 100;

    double P(int dim, unsigned i) const { return dim ? rs[i]->getCentreY() : rs[i]->getCentreX(); }
    void buildConstraints(const Json &cfg);
    void checkC07(const char *when);
    void checkC08(const char *when);
    void run() override;
    std::string guarded(const std::function<void()> &fn) {
        try { LibScope ls; fn(); }
        catch (vpsc::CriticalFailure &f) { HarnessScope hs; return assertSig(f); }
        catch (cola::InvalidVariableIndexException &e) { return "InvalidVariableIndexException"; }
        catch (std::exception &e) { return "std::exception"; }
        catch (const char *) { return "char*"; }
        catch (...) { return "unknown-exception"; }
        return "";
    }
};

bool SimConv::operator()(const double new_stress, std::valarray<double> &X, std::valarray<double> &Y) {
    {
        HarnessScope hs;
        s->convCalls++;
        s->completedIteration = true;
        s->w->log.ev("layout-iter", s->id, s->convCalls);
        s->w->log.d(new_stress);
        s->probe("layout.iteration");
        s->w->yieldFrom(s->id, "layout-cb", true);
        if (s->stopAtIter > 0 && s->convCalls >= s->stopAtIter) { s->w->fault("stop_at_iter"); return true; }
        if (s->convCalls > (int)s->maxIter + 1) {
            s->violate("C07", "liveness", "run-does-not-stop-after-maxiterations", fmt("%d convergence calls, maxiterations %u", s->convCalls, s->maxIter));
            return true;
        }
    }
    return TestConvergence::operator()(new_stress, X, Y);
}
bool SimPre::operator()() {
    HarnessScope hs;
    s->preCalls++;
    s->w->yieldFrom(s->id, "layout-pre", true);
    changed = false;
    for (auto &ev : s->lockEvents) {
        if (ev.i("at", 0) != s->preCalls) continue;
        if (ev.has("lock")) {
            unsigned node = (unsigned)ev["lock"][0].i();
            if (node < s->rs.size()) {
                LibScope ls;
                for (auto it = myLocks.begin(); it != myLocks.end();) if (it->getID() == node) it = myLocks.erase(it); else ++it;
                myLocks.push_back(Lock(node, ev["lock"][1].num(), ev["lock"][2].num()));
                changed = true; s->w->fault("lock_injected"); s->probe("layout.lock-injected");
            }
        } else if (ev.has("unlock")) {
            LibScope ls;
            if (!myLocks.empty()) { myLocks.clear(); changed = true; s->w->fault("lock_released"); }
        }
    }
    if (s->interruptAt > 0 && s->preCalls == s->interruptAt) { s->interrupted = true; s->w->fault("interrupt"); s->probe("layout.interrupted"); return false; }
    return true;
}

void LayoutSession::buildConstraints(const Json &cfg) {
    for (auto &c : cfg["ccs"].a) {
        std::string t = c.str("type", "");
        int dim = (int)c.i("dim", 0);
        if (t == "sep") {
            Sep s{dim, (unsigned)c["l"].i(), (unsigned)c["r"].i(), c.num("gap", 0), c.boolean("eq", false), nullptr};
            if (s.l >= rs.size() || s.r >= rs.size() || s.l == s.r) continue;
            s.cc = new SeparationConstraint((vpsc::Dim)dim, s.l, s.r, s.g, s.eq);
            ccs.push_back(s.cc); seps.push_back(s);
        } else if (t == "align") {
            Al a; a.dim = dim; a.ac = new AlignmentConstraint((vpsc::Dim)dim, c.num("pos", 0));
            for (auto &sj : c["shapes"].a) { unsigned id = (unsigned)sj[0].i(); if (id >= rs.size()) continue; a.sh.push_back({id, sj[1].num()}); a.ac->addShape(id, sj[1].num()); }
            if (c.boolean("fixed", false)) a.ac->fixPos(c.num("pos", 0));
            ccs.push_back(a.ac); als.push_back(a);
        } else if (t == "dist" || t == "multisep") {
            bool dist = t == "dist";
            double sep = c.num("sep", 10);
            CompoundConstraint *cc;
            std::vector<int> idx;
            for (auto &aj : c["aligns"].a) if (aj.i() < (long)als.size() && als[aj.i()].dim == dim) idx.push_back((int)aj.i());
            if (idx.size() < 2) continue;
            if (dist) { DistributionConstraint *dc = new DistributionConstraint((vpsc::Dim)dim); dc->setSeparation(sep); for (size_t q = 1; q < idx.size(); q++) dc->addAlignmentPair(als[idx[q - 1]].ac, als[idx[q]].ac); cc = dc; }
            else { MultiSeparationConstraint *mc = new MultiSeparationConstraint((vpsc::Dim)dim, sep, c.boolean("eq", false)); for (size_t q = 1; q < idx.size(); q++) mc->addAlignmentPair(als[idx[q - 1]].ac, als[idx[q]].ac); cc = mc; }
            for (size_t q = 1; q < idx.size(); q++) aps.push_back({dim, idx[q - 1], idx[q], sep, dist || c.boolean("eq", false), cc});
            ccs.push_back(cc);
        } else if (t == "boundary") {
            Bd b; b.dim = dim;
            BoundaryConstraint *bc = new BoundaryConstraint((vpsc::Dim)dim);
            for (auto &sj : c["shapes"].a) { unsigned id = (unsigned)sj[0].i(); if (id >= rs.size()) continue; b.sh.push_back({id, sj[1].num()}); bc->addShape(id, sj[1].num()); }
            b.cc = bc; ccs.push_back(bc); bds.push_back(b);
        } else if (t == "fixedrel") {
            FR f;
            for (auto &ij : c["ids"].a) if (ij.i() < (long)rs.size()) f.ids.push_back((unsigned)ij.i());
            if (f.ids.size() < 2) continue;
            for (unsigned id : f.ids) { f.dx.push_back(rs[id]->getCentreX() - rs[f.ids[0]]->getCentreX()); f.dy.push_back(rs[id]->getCentreY() - rs[f.ids[0]]->getCentreY()); }
            f.cc = new FixedRelativeConstraint(rs, f.ids, c.boolean("fixedPosition", false));
            ccs.push_back(f.cc); frs.push_back(f);
        } else if (t == "page") {
            PB p{c.num("x0", 0), c.num("x1", 600), c.num("y0", 0), c.num("y1", 600), nullptr};
            PageBoundaryConstraints *pc = new PageBoundaryConstraints(p.x0, p.x1, p.y0, p.y1, c.num("w", 100));
            for (size_t i = 0; i < rs.size(); i++) pc->addShape((unsigned)i, W[i] / 2, H[i] / 2);
            p.cc = pc; ccs.push_back(pc); pbs.push_back(p);
        }
    }
}

void LayoutSession::checkC07(const char *when) {
    const double T = 1e-4;
    for (size_t i = 0; i < rs.size(); i++) {
        if (!std::isfinite(rs[i]->getCentreX()) || !std::isfinite(rs[i]->getCentreY())) { violate("C07", "finite", "non-finite-coordinate", fmt("node %zu after %s", i, when)); return; }
        if (std::fabs(rs[i]->width() - W[i]) > 1e-9 || std::fabs(rs[i]->height() - H[i]) > 1e-9) { violate("C07", "size", "rectangle-size-changed", fmt("node %zu after %s: %gx%g -> %gx%g", i, when, W[i], H[i], rs[i]->width(), rs[i]->height())); return; }
    }
    // relaxation: interrupted before the first completed iteration and no makeFeasible: nothing has been projected yet
    if (!completedIteration && !madeFeasible) { probe("layout.nothing-projected-yet"); return; }
    std::set<CompoundConstraint *> reported;
    for (auto u : ux) reported.insert(u->cc);
    for (auto u : uy) reported.insert(u->cc);
    if (!reported.empty()) probe("layout.unsatisfiable-reported");
    std::string ctx = fmt("after %s (iterations %d, makeFeasible %d, reported %zu)", when, convCalls, (int)madeFeasible, reported.size());
    // makeFeasible() drops constraints it cannot satisfy without writing to the unsatisfiable lists (only run() reports)
    // classifier for KF-C07-b: some dimension holds an inequality between two nodes that equality-type constraints (alignment,
    // fixed-relative, equality separation, distribution) already tie together -- the incremental solver then flags a
    // constraint of that equality block as unsatisfiable although the set is satisfiable
    bool redundantInEqBlock = false;
    for (int dim = 0; dim < 2 && !redundantInEqBlock; dim++) {
        std::vector<int> par(rs.size()); for (size_t i = 0; i < par.size(); i++) par[i] = (int)i;
        std::function<int(int)> find = [&](int x) { while (par[x] != x) x = par[x] = par[par[x]]; return x; };
        auto uni = [&](unsigned a, unsigned b) { if (a < par.size() && b < par.size()) par[find((int)a)] = find((int)b); };
        for (auto &a : als) if (a.dim == dim) for (size_t k = 1; k < a.sh.size(); k++) uni(a.sh[0].first, a.sh[k].first);
        for (auto &f : frs) for (size_t k = 1; k < f.ids.size(); k++) uni(f.ids[0], f.ids[k]);
        for (auto &sp : seps) if (sp.dim == dim && sp.eq) uni(sp.l, sp.r);
        for (auto &ap : aps) if (ap.dim == dim && ap.eq && !als[ap.a].sh.empty() && !als[ap.b].sh.empty()) uni(als[ap.a].sh[0].first, als[ap.b].sh[0].first);
        for (auto &sp : seps) if (sp.dim == dim && !sp.eq && find((int)sp.l) == find((int)sp.r)) redundantInEqBlock = true;
        for (auto &ap : aps) if (ap.dim == dim && !ap.eq && !als[ap.a].sh.empty() && !als[ap.b].sh.empty() && find((int)als[ap.a].sh[0].first) == find((int)als[ap.b].sh[0].first)) redundantInEqBlock = true;
        for (auto &b : bds) if (b.dim == dim) for (size_t i = 0; i < b.sh.size(); i++) for (size_t j = i + 1; j < b.sh.size(); j++) if ((b.sh[i].second < 0) != (b.sh[j].second < 0) && find((int)b.sh[i].first) == find((int)b.sh[j].first)) redundantInEqBlock = true;
        // the same situation reached through a PATH of inequalities: two different nodes of one equality block that are also
        // joined by inequalities outside it (7 -> 4 -> 6 with 7 and 6 tied by alignments and an exact multi-separation): once the
        // path's first inequalities have merged, its last one lies inside the block
        if (!redundantInEqBlock) {
            std::vector<int> par2(rs.size()); for (size_t i = 0; i < par2.size(); i++) par2[i] = (int)i;
            std::function<int(int)> find2 = [&](int x) { while (par2[x] != x) x = par2[x] = par2[par2[x]]; return x; };
            auto uni2 = [&](unsigned a, unsigned b) { if (a < par2.size() && b < par2.size()) par2[find2((int)a)] = find2((int)b); };
            for (auto &sp : seps) if (sp.dim == dim && !sp.eq) uni2(sp.l, sp.r);
            for (auto &ap : aps) if (ap.dim == dim && !ap.eq && !als[ap.a].sh.empty() && !als[ap.b].sh.empty()) uni2(als[ap.a].sh[0].first, als[ap.b].sh[0].first);
            for (size_t u = 0; u < rs.size() && !redundantInEqBlock; u++) for (size_t v = u + 1; v < rs.size(); v++)
                if (find((int)u) == find((int)v) && find2((int)u) == find2((int)v)) { redundantInEqBlock = true; break; }
        }
    }
    std::string sfx = !lastProjectionByMakeFeasible ? "" : spec["cfg"].boolean("contradiction", false) ? ":contradictory-set:dropped-by-makeFeasible-without-report"
                      : redundantInEqBlock ? ":satisfiable-set:inequality-inside-an-equality-block:dropped-by-makeFeasible-without-report" : ":satisfiable-set:dropped-by-makeFeasible-without-report";
    for (auto &s : seps) {
        if (reported.count(s.cc) || !dimJudged[s.dim]) continue;
        double l = P(s.dim, s.l), r = P(s.dim, s.r);
        if (l + s.g > r + T || (s.eq && std::fabs(l + s.g - r) > T)) { violate("C07", "separation", "separation-violated-unreported" + sfx, fmt("dim %d: v%u=%g + %g vs v%u=%g eq=%d %s", s.dim, s.l, l, s.g, s.r, r, (int)s.eq, ctx.c_str())); return; }
    }
    for (auto &a : als) {
        if (reported.count(a.ac) || a.sh.empty() || !dimJudged[a.dim]) continue;
        double p0 = P(a.dim, a.sh[0].first) - a.sh[0].second;
        for (auto &p : a.sh) { double q = P(a.dim, p.first) - p.second; if (std::fabs(q - p0) > T) { violate("C07", "alignment", "alignment-violated-unreported" + sfx, fmt("dim %d: %g vs %g %s", a.dim, q, p0, ctx.c_str())); return; } }
    }
    for (auto &ap : aps) {
        Al &A = als[ap.a], &B = als[ap.b];
        if (reported.count(ap.cc) || reported.count(A.ac) || reported.count(B.ac) || A.sh.empty() || B.sh.empty() || !dimJudged[ap.dim]) continue;
        double pa = P(A.dim, A.sh[0].first) - A.sh[0].second, pb = P(B.dim, B.sh[0].first) - B.sh[0].second;
        if (pa + ap.sep > pb + T || (ap.eq && std::fabs(pa + ap.sep - pb) > T)) { violate("C07", ap.eq ? "distribution" : "multi-separation", std::string(ap.eq ? "distribution-violated-unreported" : "multiseparation-violated-unreported") + sfx, fmt("dim %d: %g + %g vs %g %s", ap.dim, pa, ap.sep, pb, ctx.c_str())); return; }
    }
    for (auto &b : bds) {
        if (reported.count(b.cc) || !dimJudged[b.dim]) continue;
        double maxLeft = -1e18, minRight = 1e18;
        for (auto &p : b.sh) { double x = P(b.dim, p.first); if (p.second < 0) maxLeft = std::max(maxLeft, x - p.second); else minRight = std::min(minRight, x - p.second); }
        if (maxLeft > minRight + T) { violate("C07", "boundary", "boundary-violated-unreported" + sfx, fmt("dim %d: %g > %g %s", b.dim, maxLeft, minRight, ctx.c_str())); return; }
    }
    for (auto &f : frs) {
        if (reported.count(f.cc) || !dimJudged[0] || !dimJudged[1]) continue;
        for (size_t k = 0; k < f.ids.size(); k++) {
            double dx = rs[f.ids[k]]->getCentreX() - rs[f.ids[0]]->getCentreX(), dy = rs[f.ids[k]]->getCentreY() - rs[f.ids[0]]->getCentreY();
            if (std::fabs(dx - f.dx[k]) > T || std::fabs(dy - f.dy[k]) > T) { violate("C07", "fixed-relative", "fixedrelative-violated-unreported" + sfx, fmt("node %u: (%g,%g) vs (%g,%g) %s", f.ids[k], dx, dy, f.dx[k], f.dy[k], ctx.c_str())); return; }
        }
    }
    probe("layout.c07-evaluated");
}

void LayoutSession::checkC08(const char *when) {
    if (!avoidOverlaps) return;
    if (!ux.empty() || !uy.empty()) { probe("layout.c08-skipped-unsatisfiable"); return; }
    if (!(madeFeasible && completedIteration) || lastProjectionByMakeFeasible || !lastRunBothAxes) return;       // the statement: after makeFeasible() followed by run()
    int n = (int)rs.size();
    auto exemptPair = [&](int i, int j) { for (auto &g : exempt) { bool a = false, b = false; for (unsigned k : g) { if ((int)k == i) a = true; if ((int)k == j) b = true; } if (a && b) return true; } return false; };
    std::string ctx = fmt("after %s (iterations %d)", when, convCalls);
    // all members of a cluster: its own nodes and those of every descendant cluster (parents always precede their children)
    auto allm = [&](size_t c) {
        std::vector<int> v; std::vector<bool> inSub(clusters.size(), false); inSub[c] = true;
        for (size_t d = c; d < clusters.size(); d++) { if (d != c && clusters[d].parent >= 0 && inSub[(size_t)clusters[d].parent]) inSub[d] = true; if (inSub[d]) for (int i : clusters[d].nodes) v.push_back(i); }
        return v;
    };
    // a cluster built on a node rectangle (RectangularCluster(rectIndex)): that rectangle IS the cluster's box, so it and the
    // cluster's members are declared to overlap; against every other node it is an ordinary node rectangle
    auto boxOfItsMembers = [&](int i, int j) {
        for (size_t c = 0; c < clusters.size(); c++) if (clusters[c].rect == i || clusters[c].rect == j) {
            int other = clusters[c].rect == i ? j : i;
            for (int m : allm(c)) if (m == other) return true;
        }
        return false;
    };
    for (int i = 0; i < n; i++) for (int j = i + 1; j < n; j++) {
        if (exemptPair(i, j) || boxOfItsMembers(i, j)) continue;
        double ox = std::min(rs[i]->getMaxX(), rs[j]->getMaxX()) - std::max(rs[i]->getMinX(), rs[j]->getMinX());
        double oy = std::min(rs[i]->getMaxY(), rs[j]->getMaxY()) - std::max(rs[i]->getMinY(), rs[j]->getMinY());
        if (ox > 1e-3 && oy > 1e-3) { violate("C08", "node-overlap", "nodes-overlap", fmt("nodes %d,%d overlap %g x %g %s", i, j, ox, oy, ctx.c_str())); return; }
    }
    auto bb = [&](const std::vector<int> &v, double *b) { b[0] = b[2] = 1e18; b[1] = b[3] = -1e18; for (int i : v) { b[0] = std::min(b[0], rs[i]->getMinX()); b[1] = std::max(b[1], rs[i]->getMaxX()); b[2] = std::min(b[2], rs[i]->getMinY()); b[3] = std::max(b[3], rs[i]->getMaxY()); } };
    for (size_t a = 0; a < clusters.size(); a++) {
        std::vector<int> ma = allm(a);
        if (ma.empty()) continue;
        double A[4]; bb(ma, A);
        for (size_t b = a + 1; b < clusters.size(); b++) {
            if (clusters[a].parent != clusters[b].parent) continue;
            std::vector<int> mb = allm(b);
            if (mb.empty()) continue;
            double B[4]; bb(mb, B);
            double ox = std::min(A[1], B[1]) - std::max(A[0], B[0]), oy = std::min(A[3], B[3]) - std::max(A[2], B[2]);
            if (ox > 1e-3 && oy > 1e-3) { violate("C08", "sibling-clusters", "sibling-cluster-boxes-overlap", fmt("clusters %zu,%zu: %g x %g %s", a, b, ox, oy, ctx.c_str())); return; }
        }
        for (int i = 0; i < n; i++) {
            bool in = false; for (int m : ma) if (m == i) in = true;
            if (in || clusters[a].rect == i) continue;
            double ox = std::min(A[1], rs[i]->getMaxX()) - std::max(A[0], rs[i]->getMinX()), oy = std::min(A[3], rs[i]->getMaxY()) - std::max(A[2], rs[i]->getMinY());
            if (ox > 1e-3 && oy > 1e-3) { violate("C08", "containment", "node-inside-foreign-cluster-box", fmt("node %d in box of cluster %zu by %g x %g %s", i, a, ox, oy, ctx.c_str())); return; }
        }
    }
    probe("layout.c08-evaluated");
}

void LayoutSession::run() {
    const Json &cfg = spec["cfg"];
    std::string ex = guarded([&] {
        for (auto &rj : cfg["rects"].a) {
            double x = rj[0].num(), y = rj[1].num(), wd = rj[2].num(), h = rj[3].num();
            rs.push_back(new vpsc::Rectangle(x, x + wd, y, y + h)); W.push_back(wd); H.push_back(h);
        }
        for (auto &ej : cfg["edges"].a) if (ej[0].i() < (long)rs.size() && ej[1].i() < (long)rs.size() && ej[0].i() != ej[1].i()) es.push_back(Edge((unsigned)ej[0].i(), (unsigned)ej[1].i()));
        buildConstraints(cfg);
        maxIter = (unsigned)cfg.i("maxiter", 100);
        conv = new SimConv(this, cfg.num("tol", 1e-4), maxIter);
        pre = new SimPre(this);
        if (cfg.boolean("majorization", false)) {
            maj = new ConstrainedMajorizationLayout(rs, es, nullptr, cfg.num("ideal", 50), StandardEdgeLengths, conv, cfg.boolean("preiteration", true) ? pre : nullptr, cfg.boolean("neighbourStress", false));
            maj->setConstraints(&ccs);
            maj->setUnsatisfiableConstraintInfo(&ux, &uy);
            return;
        }
        alg = new ConstrainedFDLayout(rs, es, cfg.num("ideal", 50), StandardEdgeLengths, conv, cfg.boolean("preiteration", true) ? pre : nullptr);
        alg->setConstraints(ccs);
        alg->setUnsatisfiableConstraintInfo(&ux, &uy);
        avoidOverlaps = cfg.boolean("avoidOverlaps", false);
        for (auto &g : cfg["exempt"].a) { std::vector<unsigned> v; for (auto &k : g.a) if (k.i() < (long)rs.size()) v.push_back((unsigned)k.i()); if (v.size() >= 2) exempt.push_back(v); }
        if (avoidOverlaps) alg->setAvoidNodeOverlaps(true, exempt);
        if (cfg["clusters"].size() > 0) {
            root = new RootCluster();
            for (auto &cj : cfg["clusters"].a) {
                Cl c; c.parent = (int)cj.i("parent", -1); c.padding = cj.num("padding", 0); c.margin = cj.num("margin", 0);
                c.rect = (int)cj.i("rect", -1);
                if (c.rect >= (int)rs.size()) c.rect = -1;
                c.ref = c.rect >= 0 ? new RectangularCluster((unsigned)c.rect) : new RectangularCluster();
                if (c.rect >= 0) probe("layout.fixed-rectangle-cluster");
                if (c.padding > 0) c.ref->setPadding(c.padding);
                if (c.margin > 0) c.ref->setMargin(c.margin);
                for (auto &nj : cj["nodes"].a) if (nj.i() < (long)rs.size()) { c.nodes.push_back((int)nj.i()); c.ref->addChildNode((unsigned)nj.i()); }
                clusters.push_back(c);
            }
            for (size_t c = 0; c < clusters.size(); c++) {
                if (clusters[c].parent >= 0 && clusters[c].parent < (int)c) clusters[clusters[c].parent].ref->addChildCluster(clusters[c].ref);
                else { clusters[c].parent = -1; root->addChildCluster(clusters[c].ref); }
            }
            alg->setClusterHierarchy(root);
        }
        if (cfg.boolean("neighbourStress", false)) alg->setUseNeighbourStress(true);
    });
    if (!ex.empty()) { probe(ex.c_str()); violate("C15", "assert", ex, "layout setup"); dead = true; }
    const Json &ops = spec["ops"];
    for (size_t oi = 0; oi < ops.size() && !dead; oi++) {
        curOp = (int)oi;
        const Json &op = ops[oi];
        std::string o = op.str("op", "");
        w->log.ev(o.c_str(), id, (long)oi);
        convCalls = 0; preCalls = 0; stopAtIter = 0; interruptAt = 0; lockEvents.clear(); interrupted = false;
        for (auto &f : op["faults"].a) {
            if (f.has("stop_at_iter")) stopAtIter = (int)f["stop_at_iter"].i();
            if (f.has("interrupt_at_precall")) interruptAt = (int)f["interrupt_at_precall"].i();
            if (f.has("lock") || f.has("unlock")) lockEvents.push_back(f);
        }
        std::string e2;
        if (maj) {
            if (o != "run") continue;
            bool x = op.boolean("x", true), y = op.boolean("y", true);
            e2 = guarded([&] { maj->run(x, y); });
            if (e2.empty()) {
                probe("layout.majorization-run");
                if (convCalls > 0) { lastProjectionByMakeFeasible = false; dimJudged[0] = x; dimJudged[1] = y; madeFeasible = true; }
            }
        } else if (o == "makeFeasible") {
            e2 = guarded([&] { alg->makeFeasible(op.num("xBorder", 1), op.num("yBorder", 1)); });
            if (e2.empty()) { madeFeasible = true; ranOnceSinceProjection = false; lastProjectionByMakeFeasible = true; dimJudged[0] = dimJudged[1] = true; lastRunBothAxes = true; probe("layout.makeFeasible"); }
        } else if (o == "run") {
            bool x = op.boolean("x", true), y = op.boolean("y", true);
            e2 = guarded([&] { alg->run(x, y); });
            if (e2.empty()) {
                probe("layout.run");
                if (convCalls > 0) {          // at least one iteration completed: it ended with a projection and with unsatisfiable reporting for the axes that ran
                    ranOnceSinceProjection = false; lastProjectionByMakeFeasible = false;
                    dimJudged[0] = x; dimJudged[1] = y; lastRunBothAxes = x && y;
                }
            }
        } else if (o == "runOnce") {
            e2 = guarded([&] { alg->runOnce(op.boolean("x", true), op.boolean("y", true)); });
            if (e2.empty()) { ranOnceSinceProjection = true; probe("layout.runOnce"); }
        } else if (o == "setExempt") {
            // the client changes (or withdraws) the overlap exemptions on the live layout object
            if (!avoidOverlaps || maj) continue;
            std::vector<std::vector<unsigned>> groups;
            for (auto &g : op["groups"].a) { std::vector<unsigned> v; for (auto &k : g.a) if (k.i() < (long)rs.size()) v.push_back((unsigned)k.i()); if (v.size() >= 2) groups.push_back(v); }
            e2 = guarded([&] { if (groups.empty() && op.boolean("default_arg", true)) alg->setAvoidNodeOverlaps(true); else alg->setAvoidNodeOverlaps(true, groups); });
            exempt = groups;
            madeFeasible = false; completedIteration = false;      // C08 is judged again only after a new makeFeasible() + run()
            probe("layout.exemptions-changed");
            if (e2.empty()) { yield("op"); continue; }
        } else if (o == "output") {
            for (auto &f : op["faults"].a) if (f.has("fopen")) { SimFS::fail_next_opens = 1; SimFS::fail_errno = 28; }
            e2 = guarded([&] { alg->outputInstanceToSVG("simfs-layout"); });
            SimFS::fail_next_opens = 0;
            probe("layout.output");
        } else continue;
        if (!e2.empty()) {
            w->fault("exception"); probe(e2.c_str());
            violate("C15", "assert", e2, fmt("during layout %s", o.c_str()));
            violate("C07", "threw", "layout-threw:" + e2, o);
            dead = true; break;
        }
        if (o != "output") {
            HarnessScope hs;
            std::vector<double> out;
            for (auto r : rs) { out.push_back(r->getCentreX()); out.push_back(r->getCentreY()); }
            record(out, false);
            if (ranOnceSinceProjection) probe("layout.not-judged-after-runOnce");   // runOnce() is outside the statement: it does not end with a projection
            else {
                if (armed("C07")) checkC07(o.c_str());
                if (armed("C08")) checkC08(o.c_str());
            }
        }
        yield("op");
    }
    curOp = -1;
    if (!dead) {
        std::string e3 = guarded([&] {
            if (maj) { delete maj; for (auto c : ccs) delete c; for (auto r : rs) delete r; delete conv; delete pre; return; }
            alg->freeAssociatedObjects();       // rectangles, compound constraints, cluster hierarchy
            delete alg; delete conv; delete pre;
        });
        if (!e3.empty()) { probe(e3.c_str()); violate("C15", "assert", e3, "layout teardown"); }
    }
}
static Session *mkLayout() { return new LayoutSession(); }
static SessionRegistrar rl1("layout", mkLayout);

// ---------------------------------------------------------------- generator
Json genLayoutSession(Rng &r, const std::string &tier, int flavour /*0 constraints, 1 overlaps+clusters, 2 any*/) {
    Json s = Json::obj(); s.set("kind", "layout");
    Json cfg = Json::obj();
    int n = r.range(tier == "thorough" ? 4 : 3, 12);
    if (r.chance(0.03)) n = r.range(1, 2);
    bool overlaps = flavour == 1 || flavour == 2;      // flavour 3: ConstrainedMajorizationLayout with constraints (connected graph, no makeFeasible)
    bool coincident = r.chance(0.15);
    std::vector<double> w(n), h(n), Wx(n), Wy(n);     // sizes and hidden witness placement
    Json rects = Json::arr();
    // witness: a non-overlapping grid placement (so that constraints + non-overlap are jointly satisfiable)
    std::vector<int> cell(n); for (int i = 0; i < n; i++) cell[i] = i;
    for (int i = n - 1; i > 0; i--) std::swap(cell[i], cell[r.below(i + 1)]);
    int cols = 4;
    for (int i = 0; i < n; i++) {
        w[i] = 10 + r.below(4) * 10; h[i] = 10 + r.below(3) * 10;
        double x = coincident ? 100 : (double)r.below(300), y = coincident ? 100 : (double)r.below(300);
        if (overlaps && r.chance(0.3)) { x = 100 + r.below(20); y = 100 + r.below(20); }        // heavily overlapping start
        Json rj = Json::arr(); rj.push(x); rj.push(y); rj.push(w[i]); rj.push(h[i]); rects.push(rj);
        Wx[i] = (cell[i] % cols) * 120 + (double)r.below(4) * 10; Wy[i] = (cell[i] / cols) * 120 + (double)r.below(4) * 10;
    }
    cfg.set("rects", rects);
    Json edges = Json::arr();
    bool edgeless = flavour != 3 && r.chance(0.08);
    for (int i = 1; i < n && !edgeless; i++) if (flavour == 3 || r.chance(0.75)) { Json e = Json::arr(); e.push((long)r.below(i)); e.push(i); edges.push(e); }
    for (int k = 0; k < n / 3 && !edgeless; k++) { int a = (int)r.below(n), b = (int)r.below(n); if (a != b) { Json e = Json::arr(); e.push(a); e.push(b); edges.push(e); } }
    cfg.set("edges", edges);
    cfg.set("ideal", r.pick(std::vector<double>{30, 50, 80}));
    cfg.set("maxiter", (long)r.pick(std::vector<int>{10, 30, 100}));
    cfg.set("preiteration", r.chance(0.8));
    cfg.set("neighbourStress", r.chance(0.15));
    Json ccs = Json::arr();
    std::set<int> used;       // dim*1000+node already tied by an equality-type constraint
    std::vector<std::pair<int, std::vector<std::pair<int, double>>>> aligns;  // dim, shapes
    int budget = flavour == 1 ? (int)r.below(3) : r.range(0, 6);
    // clusters first (flavour 1/2): their members must be contiguous in the witness -> use witness rows
    Json clusters = Json::arr();
    std::vector<int> owner(n, -1);
    if (overlaps && r.chance(flavour == 1 ? 0.7 : 0.3) && n >= 4) {
        int nc = r.range(1, 3);
        // assign by witness row so that cluster boxes are disjoint in the witness
        std::vector<std::vector<int>> rows(3);
        for (int i = 0; i < n; i++) rows[std::min(2, cell[i] / cols)].push_back(i);
        int ci = 0;
        for (int row = 0; row < 3 && ci < nc; row++) {
            if (rows[row].empty()) continue;
            Json c = Json::obj(); Json nodes = Json::arr();
            for (int i : rows[row]) if (r.chance(0.8)) { nodes.push(i); owner[i] = ci; }
            if (nodes.size() == 0) continue;
            c.set("nodes", nodes); c.set("parent", -1);
            if (r.chance(0.5)) c.set("padding", (double)r.below(3) * 5);
            if (r.chance(0.5)) c.set("margin", (double)r.below(3) * 5);
            clusters.push(c); ci++;
        }
        // nested child: split the first cluster's members by witness x
        if (clusters.size() > 0 && r.chance(0.4)) {
            Json &c0 = clusters.a[0];
            if (c0["nodes"].size() >= 2) {
                std::vector<int> mem; for (auto &x : c0["nodes"].a) mem.push_back((int)x.i());
                std::sort(mem.begin(), mem.end(), [&](int a, int b) { return Wx[a] < Wx[b]; });
                int k = r.range(1, (int)mem.size() - 1);
                Json keep = Json::arr(), child = Json::arr();
                for (int i = 0; i < (int)mem.size(); i++) (i < k ? child : keep).push(mem[i]);
                c0.set("nodes", keep);
                Json cc = Json::obj(); cc.set("nodes", child);
                if (r.chance(0.4)) {
                    // three levels: an intermediate cluster that holds only the child cluster and no node of its own
                    Json mid = Json::obj(); mid.set("nodes", Json::arr()); mid.set("parent", 0);
                    if (r.chance(0.5)) mid.set("padding", (double)r.below(3) * 5);
                    clusters.push(mid); cc.set("parent", (long)clusters.size() - 1);
                } else cc.set("parent", 0);
                clusters.push(cc);
            }
        }
    }
    // a cluster built on a node rectangle (RectangularCluster(rectIndex)): a top-level cluster without child clusters takes an unowned
    // node as its box; the box is made large enough for its members side by side, and the scene gets no user constraints (the witness
    // knows nothing of boxes).  Drawn from a side stream so that all other scenes stay as they were.
    if (flavour == 1 && clusters.size() > 0) {
        Rng r2(Rng::mix(r.s, "fixed-rectangle-cluster"));
        if (r2.chance(0.3)) {
            std::vector<int> freeNodes; for (int i = 0; i < n; i++) if (owner[i] < 0) freeNodes.push_back(i);
            std::vector<size_t> cand;
            for (size_t c = 0; c < clusters.size(); c++) {
                if (clusters.a[c].i("parent", -1) >= 0 || clusters.a[c]["nodes"].size() == 0 || clusters.a[c]["nodes"].size() > 3) continue;
                bool hasChild = false; for (auto &d : clusters.a) if (d.i("parent", -1) == (long)c) hasChild = true;
                if (!hasChild) cand.push_back(c);
            }
            if (!freeNodes.empty() && !cand.empty()) {
                size_t c = cand[r2.below(cand.size())];
                int R = (freeNodes[0] == 0 && r2.chance(0.5)) ? 0 : freeNodes[r2.below(freeNodes.size())];
                double pad = clusters.a[c].num("padding", 0), sw = 0, sh = 0;
                for (auto &x : clusters.a[c]["nodes"].a) { sw += w[(size_t)x.i()]; sh += h[(size_t)x.i()]; }
                w[R] = sw + 2 * pad + 10 + (double)r2.below(4) * 20; h[R] = sh + 2 * pad + 10 + (double)r2.below(4) * 20;
                rects.a[(size_t)R].a[2] = Json(w[R]); rects.a[(size_t)R].a[3] = Json(h[R]); cfg.set("rects", rects);
                clusters.a[c].set("rect", (long)R);
                owner[R] = (int)c;
                budget = 0;
            }
        }
    }
    if (clusters.size() > 0) cfg.set("clusters", clusters);
    bool clustered = clusters.size() > 0;
    // fixed-relative group: witness follows the initial offsets (only without overlap avoidance: offsets may overlap)
    if (!overlaps && r.chance(0.3) && n >= 4 && budget > 0) {
        std::set<int> g; for (int k = 0; k < 3; k++) g.insert((int)r.below(n));
        if (g.size() >= 2) {
            std::vector<int> ids(g.begin(), g.end());
            Json c = Json::obj(); c.set("type", "fixedrel"); Json ij = Json::arr();
            for (int id : ids) {
                ij.push(id);
                Wx[id] = Wx[ids[0]] + (rects[(size_t)id][0].num() + w[id] / 2) - (rects[(size_t)ids[0]][0].num() + w[ids[0]] / 2);
                Wy[id] = Wy[ids[0]] + (rects[(size_t)id][1].num() + h[id] / 2) - (rects[(size_t)ids[0]][1].num() + h[ids[0]] / 2);
                used.insert(id); used.insert(1000 + id);
            }
            c.set("ids", ij); ccs.push(c); budget--;
        }
    }
    auto Wd = [&](int dim, int i) -> double & { return dim ? Wy[i] : Wx[i]; };
    // alignments (only with nodes of the same witness row/column when overlaps are on, to stay jointly satisfiable)
    int nal = std::min(budget, (int)r.below(4));
    for (int k = 0; k < nal; k++) {
        int dim = (int)r.below(2);
        std::vector<int> g;
        if (overlaps) {
            int line = (int)r.below(dim ? 3 : cols);
            for (int i = 0; i < n; i++) { int li = dim ? cell[i] / cols : cell[i] % cols; if (li == line && !used.count(dim * 1000 + i) && r.chance(0.7)) g.push_back(i); }
        } else for (int i = 0; i < n; i++) if (!used.count(dim * 1000 + i) && r.chance(0.33)) g.push_back(i);
        if (g.size() < 2) continue;
        double pos = overlaps ? Wd(dim, g[0]) : (double)r.below(60) * 10;
        Json c = Json::obj(); c.set("type", "align"); c.set("dim", dim); Json sh = Json::arr();
        std::vector<std::pair<int, double>> shv;
        for (int id : g) { double off = overlaps ? 0 : ((double)r.range(-1, 1)) * 5; Json e = Json::arr(); e.push(id); e.push(off); sh.push(e); Wd(dim, id) = pos + off; used.insert(dim * 1000 + id); shv.push_back({id, off}); }
        c.set("shapes", sh); ccs.push(c); aligns.push_back({dim, shv}); budget--;
    }
    // distribution / multi-separation over alignments of one dimension (not with overlaps: witness lines are fixed there)
    if (!overlaps) for (int dim = 0; dim < 2; dim++) {
        std::vector<int> idx;
        int base = 0;
        for (size_t k = 0; k < ccs.size(); k++) if (ccs[k].str("type", "") == "align") { if (ccs[k].i("dim", 0) == dim) idx.push_back(base); base++; }
        if (idx.size() >= 2 && r.chance(0.5) && budget > 0) {
            bool dist = r.chance(0.5); double sep = (double)r.range(1, 5) * 20, b0 = (double)r.below(20) * 10;
            bool eq = !dist && r.chance(0.4);        // MultiSeparationConstraint with equality = true: exactly sep apart
            for (size_t q = 0; q < idx.size(); q++) { double pos = b0 + q * sep + (!dist && !eq ? (double)r.below(3) * 10 * q : 0); for (auto &p : aligns[idx[q]].second) Wd(dim, p.first) = pos + p.second; }
            Json c = Json::obj(); c.set("type", dist ? "dist" : "multisep"); c.set("dim", dim); c.set("sep", sep); if (eq) c.set("eq", true);
            Json aj = Json::arr(); for (int q : idx) aj.push(q); c.set("aligns", aj); ccs.push(c); budget--;
            // side stream: guide lines of the group are "dragged" -- AlignmentConstraint::fixPos() gives a guide line an ideal position
            // with a large weight, which is a wish, not a constraint: the separation of the group must still hold when two wishes
            // are closer together than sep
            Rng r2(Rng::mix(r.s, "fixed-guidelines"));
            if (r2.chance(0.35)) {
                std::vector<size_t> alignAt; for (size_t k2 = 0; k2 < ccs.size(); k2++) if (ccs[k2].str("type", "") == "align") alignAt.push_back(k2);
                double at = (double)r2.below(40) * 10;
                int nfix = 0;
                for (int q : idx) if ((size_t)q < alignAt.size() && (nfix < 2 || r2.chance(0.5))) { ccs.a[alignAt[(size_t)q]].set("fixed", true); ccs.a[alignAt[(size_t)q]].set("pos", at + (double)r2.range(-2, 2) * 10); nfix++; }
            }
        }
    }
    // separations consistent with the witness
    int ns = std::min(budget, (int)r.below(5));
    for (int k = 0; k < ns; k++) {
        int a = (int)r.below(n), b = (int)r.below(n); if (a == b) continue;
        int dim = (int)r.below(2);
        if (Wd(dim, a) > Wd(dim, b)) std::swap(a, b);
        double d = Wd(dim, b) - Wd(dim, a);
        bool eq = r.chance(0.15) && !used.count(dim * 1000 + a) && !used.count(dim * 1000 + b) && !overlaps;
        double g = eq ? d : std::floor(d * (double)r.below(11) / 10.0);
        if (eq) { used.insert(dim * 1000 + a); used.insert(dim * 1000 + b); }
        Json c = Json::obj(); c.set("type", "sep"); c.set("dim", dim); c.set("l", a); c.set("r", b); c.set("gap", g); c.set("eq", eq); ccs.push(c); budget--;
    }
    // boundaries consistent with the witness
    int nb = std::min(budget, (int)r.below(3));
    for (int k = 0; k < nb; k++) {
        int dim = (int)r.below(2); double pos = (double)r.below(50) * 10 + 5;
        Json c = Json::obj(); c.set("type", "boundary"); c.set("dim", dim); Json sh = Json::arr();
        for (int i = 0; i < n; i++) if (r.chance(0.33)) {
            double d = Wd(dim, i) - pos; if (d == 0) continue;
            double off = d < 0 ? -std::floor(-d * (double)r.range(1, 10) / 10.0) : std::floor(d * (double)r.range(1, 10) / 10.0);
            if (off == 0) continue;
            // side stream: a shape on the right now and then sits at offset exactly 0 (it may touch the boundary line; the library
            // documents non-negative offsets as "right of the boundary")
            { Rng r2(Rng::mix(r.s, "boundary-zero-offset")); if (d > 0 && r2.chance(0.3)) off = 0; }
            Json e = Json::arr(); e.push(i); e.push(off); sh.push(e);
        }
        if (sh.size() == 0) continue;
        c.set("shapes", sh); ccs.push(c); budget--;
    }
    if (r.chance(0.1)) { Json c = Json::obj(); c.set("type", "page"); c.set("x0", -200.0); c.set("x1", 900.0); c.set("y0", -200.0); c.set("y1", 900.0); c.set("w", 100.0); ccs.push(c); }
    // an unsatisfiable mix: contradict one separation
    if (!overlaps && r.chance(0.15) && n >= 2) {
        int a = (int)r.below(n), b = (a + 1) % n, dim = (int)r.below(2);
        Json c1 = Json::obj(); c1.set("type", "sep"); c1.set("dim", dim); c1.set("l", a); c1.set("r", b); c1.set("gap", 50.0); c1.set("eq", false); ccs.push(c1);
        Json c2 = Json::obj(); c2.set("type", "sep"); c2.set("dim", dim); c2.set("l", b); c2.set("r", a); c2.set("gap", 50.0); c2.set("eq", false); ccs.push(c2);
        cfg.set("contradiction", true);
    }
    cfg.set("ccs", ccs);
    cfg.set("avoidOverlaps", overlaps);
    bool major = flavour == 3;
    if (major) { cfg.set("majorization", true); cfg.set("maxiter", (long)r.pick(std::vector<int>{10, 30})); }
    if (overlaps && !clustered && r.chance(0.4) && n >= 3) { Json ex = Json::arr(); Json g = Json::arr(); int a = (int)r.below(n), b = (int)r.below(n); if (a != b) { g.push(a); g.push(b); if (r.chance(0.3)) { int c3 = (int)r.below(n); if (c3 != a && c3 != b) g.push(c3); } ex.push(g); cfg.set("exempt", ex); } }
    std::string style = std::string(flavour == 3 ? "majorization" : overlaps ? "overlaps" : "constraints") + (clustered ? fmt("+%zuclusters", clusters.size()) : "");
    cfg.set("style", style);
    s.set("cfg", cfg);
    // ops: the user actor
    Json ops = Json::arr();
    auto runOp = [&]() {
        Json o = Json::obj(); o.set("op", "run");
        if (r.chance(0.15)) { o.set("x", r.chance(0.5)); o.set("y", !o["x"].boolean() || r.chance(0.3)); }
        Json fl = Json::arr();
        if (r.chance(0.6)) { Json f = Json::obj(); f.set("stop_at_iter", (long)r.range(1, 15)); fl.push(f); }
        if (r.chance(0.2)) { Json f = Json::obj(); f.set("interrupt_at_precall", (long)r.range(1, 12)); fl.push(f); }
        if (r.chance(0.3)) {
            int node = (int)r.below(n); int at = r.range(1, 8);
            Json f = Json::obj(); f.set("at", at); Json l = Json::arr(); l.push(node); l.push((double)r.below(400)); l.push((double)r.below(400)); f.set("lock", l); fl.push(f);
            if (r.chance(0.6)) { Json u = Json::obj(); u.set("at", at + r.range(1, 6)); u.set("unlock", true); fl.push(u); }
        }
        if (fl.size()) o.set("faults", fl);
        ops.push(o);
    };
    bool mf = flavour == 1 ? true : flavour == 3 ? false : r.chance(0.5);
    if (overlaps && !clustered && flavour != 3 && cfg.has("exempt") && r.chance(0.7)) {
        // history on the live object: lay out with exemptions, then withdraw or replace them and lay out again
        { Json o = Json::obj(); o.set("op", "makeFeasible"); ops.push(o); }
        runOp();
        Json o = Json::obj(); o.set("op", "setExempt");
        Json groups = Json::arr();
        if (r.chance(0.3)) { Json g2 = Json::arr(); int a = (int)r.below(n), b = (int)r.below(n); if (a != b) { g2.push(a); g2.push(b); groups.push(g2); } }
        o.set("groups", groups); o.set("default_arg", r.chance(0.7));
        ops.push(o);
        mf = true;
        { Json o2 = Json::obj(); o2.set("op", "makeFeasible"); ops.push(o2); }
    } else
    if (mf) { Json o = Json::obj(); o.set("op", "makeFeasible"); ops.push(o); }
    int runs = r.range(1, 3);
    for (int k = 0; k < runs; k++) {
        if (r.chance(0.15)) { Json o = Json::obj(); o.set("op", "runOnce"); ops.push(o); }
        else runOp();
        if (r.chance(0.1)) { Json o = Json::obj(); o.set("op", "output"); if (r.chance(0.5)) { Json fl = Json::arr(); Json f = Json::obj(); f.set("fopen", "ENOSPC"); fl.push(f); o.set("faults", fl); } ops.push(o); }
        if (!mf && flavour != 3 && r.chance(0.2)) { Json o = Json::obj(); o.set("op", "makeFeasible"); ops.push(o); mf = true; }
    }
    s.set("ops", ops);
    return s;
}

static Json genLayoutPlan(const std::string &prop, uint64_t seed, const std::string &tier) {
    Rng r(Rng::mix(seed, "plan"));
    Json p = planSkeleton(prop, "layout", seed, r, 200);
    Json ss = Json::arr();
    int nsess = r.chance(0.35) ? 2 : 1;
    // C07 also judges layouts with overlap avoidance (user constraints from a non-overlapping witness), e.g. after makeFeasible() alone
    for (int i = 0; i < nsess; i++) ss.push(genLayoutSession(r, tier, prop == "C08" ? 1 : (r.chance(0.35) ? 2 : r.chance(0.2) ? 3 : 0)));
    if (r.chance(0.25)) ss.push(genOverlapSession(r, "quick"));     // shares Rectangle::xBorder/yBorder with makeFeasible
    p.set("sessions", ss);
    return p;
}
static GenRegistrar gl7("C07", genLayoutPlan), gl8("C08", genLayoutPlan);
static Json mixLayout(Rng &r, const std::string &tier, bool) { return genLayoutSession(r, tier, r.chance(0.5) ? 2 : 0); }
static MixGenRegistrar mgl(mixLayout);
