// Signatures of library failures that survive edits elsewhere in the file: no line numbers.
//   assertion        assert@<lib/file>[<asserted expression, blanks removed>]   (+ :<function> when the expression is just "false")
//   crash / ASan / leak / damaged block: <kind>@<lib/file>:<function through which that file was entered>
#pragma once
#include <string>
#include <cstring>
#include "libvpsc/assertions.h"

static inline std::string sigFile(const char *file) { const char *p = strstr(file, "lib"); return p ? p : file; }
static inline std::string sigExpr(const char *expr) {
    std::string e; for (const char *p = expr ? expr : ""; *p; ++p) if (*p != ' ' && *p != '\t' && *p != '\n') e += *p;
    if (e.size() > 60) e = e.substr(0, 60);
    return e;
}
static inline std::string sigFunc(std::string fn);
// the function is named only where the expression says nothing ("false", "0"): an assertion moved into an extracted helper keeps its name
static inline std::string assertSig(const vpsc::CriticalFailure &f) {
    std::string e = sigExpr(f.expr);
    bool trivial = e == "false" || e == "0" || e == "true" || e == "1";
    return "assert@" + sigFile(f.file) + (trivial && f.function ? ":" + sigFunc(f.function) : std::string()) + "[" + e + "]";
}
// "Avoid::ConnEnd::disconnect(bool)" -> "ConnEnd::disconnect"; "std::..." and operators are kept as they are
static inline std::string sigFunc(std::string fn) {
    size_t nl = fn.find('\n'); if (nl != std::string::npos) fn = fn.substr(0, nl);
    // cut the argument list: the '(' that is not part of "operator()"
    size_t op = fn.find("operator()");
    size_t par = fn.find('(', op == std::string::npos ? 0 : op + 10);
    if (par != std::string::npos) fn = fn.substr(0, par);
    // drop a leading return type ("static Avoid::EdgeInf* Avoid::EdgeInf::f"): keep the last blank-separated token
    size_t sp = fn.rfind(' ');
    size_t opq = fn.find("operator");
    if (opq != std::string::npos) { size_t s2 = fn.rfind(' ', opq); if (s2 != std::string::npos) fn = fn.substr(s2 + 1); }
    else if (sp != std::string::npos) fn = fn.substr(sp + 1);
    for (const char *ns : {"Avoid::", "vpsc::", "cola::", "topology::", "dialect::", "straightener::", "shortest_paths::"}) { size_t p; while ((p = fn.find(ns)) != std::string::npos) fn.erase(p, strlen(ns)); }
    std::string out; for (char ch : fn) if (ch != ' ') out += ch;      // signatures carry no blanks
    if (out.size() > 70) out = out.substr(0, 70);
    return out;
}
