#pragma once
#include "core.h"
#include "geom.h"
#include "oracle_route.h"
#include "libavoid/libavoid.h"
#include "libvpsc/assertions.h"

struct RouterSession;
struct SimRouter : Avoid::Router {
    RouterSession *s = nullptr;
    explicit SimRouter(unsigned flags) : Avoid::Router(flags) {}
    bool shouldContinueTransactionWithProgress(unsigned int elapsedTime, unsigned int phaseNumber, unsigned int totalPhases, double proportion) override;
};

struct RouterSession : Session {
    struct PinM { int cls; double xo, yo; bool prop; double inside; unsigned dirs; bool excl; Avoid::ShapeConnectionPin *ref; };
    struct Sh { Poly poly; bool alive = false; bool isRect = false; Avoid::ShapeRef *ref = nullptr; std::vector<PinM> pins; };
    struct End { int kind = 0; Pt pt{0, 0}; unsigned dirs = 15; int shape = -1, cls = 0; int junction = -1; };   // kind 0 point, 1 shape pin, 2 junction, 3 detached
    struct Cn { End e[2]; Avoid::ConnRef *ref = nullptr; bool alive = false; bool hyperedge = false; bool fixedRoute = false; bool cpStale = false; bool detachedByDelete = false; std::vector<Pt> checkpoints; std::vector<std::pair<unsigned, unsigned>> cpDirs; int hyper = -1;
        // checkpoints with their arrival / departure direction masks (ConnDirAll when none was given)
        std::vector<Avoid::Checkpoint> mkCheckpoints() const { std::vector<Avoid::Checkpoint> v; for (size_t i = 0; i < checkpoints.size(); i++) { unsigned a = i < cpDirs.size() ? cpDirs[i].first : 15u, d = i < cpDirs.size() ? cpDirs[i].second : 15u; v.push_back(a == 15 && d == 15 ? Avoid::Checkpoint(Avoid::Point(checkpoints[i].x, checkpoints[i].y)) : Avoid::Checkpoint(Avoid::Point(checkpoints[i].x, checkpoints[i].y), (Avoid::ConnDirFlags)a, (Avoid::ConnDirFlags)d)); } return v; }
        void setCheckpointsFrom(const Json &arr) { checkpoints.clear(); cpDirs.clear(); for (auto &q : arr.a) { checkpoints.push_back(Pt{q[0].num(), q[1].num()}); cpDirs.push_back({q.size() >= 4 ? (unsigned)q[2].i(15) : 15u, q.size() >= 4 ? (unsigned)q[3].i(15) : 15u}); } } };
    struct Jn { Pt pt; bool alive = false; Avoid::JunctionRef *ref = nullptr; bool fixed = false; };
    struct CbCtx { RouterSession *s; int conn; };

    SimRouter *router = nullptr;
    std::map<int, Sh> shapes;
    std::map<int, Cn> conns;
    std::vector<Pt> everRestrictedEnds;      // every free end position that ever carried a direction restriction in this session
    std::map<int, Jn> junctions;
    struct Cl { Avoid::ClusterRef *ref = nullptr; bool alive = false; };
    std::map<int, Cl> clusters;
    std::map<int, double> params;
    std::map<int, bool> options;
    std::map<int, int> callbacks, cbSeen;
    std::vector<std::map<int, std::vector<Pt>>> txnRoutes;      // per completed transaction: connector id -> displayRoute
    std::vector<std::map<int, double>> txnCosts;                // per completed transaction: connector id -> cost
    std::vector<CbCtx *> cbctx;
    std::set<int> addedThisTxn, addedJunctionsThisTxn, reshapedThisTxn;
    bool ortho = false, useTransactions = true, costOraclesApply = true, armedPinsGeometry = false;
    bool tunSelective = true, tunInvis = true, tunLees = true;
    bool dead = false, dirty = false, zeroMoveOnly = false;
    std::vector<Pt> curRoute;        // the route being classified (for throughShapeClass)
    int pendingEdits = 0;
    // fault state of the current op
    int checks = 0, cancelAt = 0; bool cancelRequested = false; long deadlineMs = 0; unsigned lastElapsed = 0;

    void run() override;
    End endFromJson(const Json &j);
    bool endValid(const End &e);
    Avoid::ConnEnd mkEnd(const End &e);
    void applyConfig(Avoid::Router *r, bool live);
    double routeCost(Avoid::ConnRef *c);
    std::string describeScene();
    bool process(const Json &op, const char *when);
    void armFaults(const Json &op);
    void disarmFaults(bool transactionRan);
    void afterTransaction(const char *when, bool processed);
    void onLibraryException(const std::string &ex, const char *when);
    void edit();
    std::vector<std::vector<Pt>> snapshotRoutes();
    bool pathExists(const Cn &c);
    std::string throughShapeClass(const Cn &c, Pt p, Pt q, const Poly &poly);
    void checkValidity(const char *when);
    void checkOptimality(const char *when);
    void checkAgainstFresh(const char *when);
    // pins / junctions / hyperedges / nudging (C10-C12)
    void addPins(Sh &sh, const Json &op);
    void onReshape(Sh &sh, const Poly &old, const Json &op);
    bool reshapeKeepsPinsApart(const Sh &sh, const Poly &np);      // two pins of one shape must not end up on one point
    bool extraOp(const Json &op, const std::string &o, std::string &ex, bool &edited);
    void extraChecks(const char *when);
    void checkPins(const char *when);
    void checkNudging(const char *when);
    bool optNudgeAttached();
};

Poly polyFromJson(const Json &j);
Json polyToJson(const Poly &p);
std::vector<Pt> routePts(const Avoid::PolyLine &r);
