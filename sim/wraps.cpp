// Link-time seams: simulated CPU clock and in-memory file layer.
// -Wl,--wrap=clock,--wrap=fopen,--wrap=time redirect the calls made from inside
// the libraries (router.cpp, timer.cpp, colafd.cpp, cola_topology_addon.cpp,
// aca.cpp, io.cpp ...).  Nothing touches the disk, nothing reads a real clock.
#include "core.h"
#include <cstdio>
#include <cerrno>
#include <ctime>

long g_simclock_us = 1000000;
long g_clock_reads = 0;
int g_clock_unavailable = 0;
int SimFS::fail_next_opens = 0;
int SimFS::fail_errno = ENOSPC;
long SimFS::opens = 0, SimFS::failed = 0, SimFS::bytes = 0;
long SimFS::short_write_every = 0;

static long writes = 0;
static ssize_t sink_write(void *, const char *, size_t n) {
    writes++;
    if (SimFS::short_write_every > 0 && writes % SimFS::short_write_every == 0) {
        // short write: the stream sees fewer bytes accepted than offered
        size_t k = n / 2;
        SimFS::bytes += (long)k;
        if (k == 0) { errno = ENOSPC; return 0; }
        return (ssize_t)k;
    }
    SimFS::bytes += (long)n;
    return (ssize_t)n;
}
static int sink_close(void *) { return 0; }

extern "C" {
FILE *__real_fopen(const char *, const char *);
clock_t __wrap_clock(void) {
    g_clock_reads++;
    if (g_clock_unavailable > 0) { g_clock_unavailable--; return (clock_t)-1; }
    g_simclock_us += 50;          // time moves a little on every read
    return (clock_t)(g_simclock_us * (CLOCKS_PER_SEC / 1000000));
}
time_t __wrap_time(time_t *t) {
    time_t v = (time_t)(1700000000 + g_simclock_us / 1000000);
    if (t) *t = v;
    return v;
}
FILE *__wrap_fopen(const char *path, const char *mode) {
    // reads of real files (e.g. /proc by the sanitizer runtime) go through
    if (mode && mode[0] == 'r') return __real_fopen(path, mode);
    SimFS::opens++;
    if (SimFS::fail_next_opens > 0) {
        SimFS::fail_next_opens--;
        SimFS::failed++;
        errno = SimFS::fail_errno;
        return nullptr;
    }
    cookie_io_functions_t io = {nullptr, sink_write, nullptr, sink_close};
    return fopencookie(nullptr, "w", io);
}
}
