#pragma once
#include "core.h"
#include "geom.h"
#include <functional>

struct SceneGen {
    Rng &r;
    struct GS { RectB box; Poly poly; bool alive = false; bool rect = true; int attached = 0; std::vector<int> pinsIds; std::vector<Json> pins; };
    struct GC { Pt e[2]; bool freeEnd[2] = {false, false}; int shapeEnd[2] = {-1, -1}; int clsEnd[2] = {0, 0}; int junctionEnd[2] = {-1, -1}; bool alive = false; bool hyper = false; std::vector<Pt> cps; };
    struct GJ { Pt p; bool alive = false; };
    std::map<int, GS> shapes; int nextShape = 0;
    std::map<int, GC> conns; int nextConn = 0;
    std::map<int, GJ> junctions; int nextJunction = 0;
    double gap = 5, endMargin = 1, edgePoints = 0, edgeLines = 0, scanCompanion = 0;
    bool polygons = false, touching = false, dirRestrict = false, checkpoints = false, allowDeleteAttached = true, allowCover = false;
    std::function<void(SceneGen &, int, Json &)> pinHook;
    std::function<bool(SceneGen &, Json &, GC &, int)> endHook;
    explicit SceneGen(Rng &rr) : r(rr) {}
    Poly mkPoly(const RectB &c, bool &isRect);
    bool boxFree(const RectB &c, int ignore);
    bool placeBox(RectB &out);
    bool pointFree(Pt p, double margin);
    Pt freePoint();
    int addShape(Json &ops);
    int addConn(Json &ops);
    bool moveShape(Json &ops);
    bool reshape(Json &ops);
    bool deleteShape(Json &ops, const std::set<int> &notThese);
    bool moveEnd(Json &ops);
    bool deleteConn(Json &ops);
};

struct RouterGenCfg {
    bool ortho = false, transactions = true, costOracles = true, pinsGeometry = false;
    std::map<int, double> params;
    std::map<int, bool> options;
    std::string styleExtra;
    bool selective = true, invis = true, lees = true;
    double gap = 5, endMargin = 1, edgePoints = 0, edgeLines = 0, scanCompanion = 0;
    bool polygons = false, touching = false, dirRestrict = false, checkpoints = false, cancelFaults = false, outputOps = false, trailingEdits = false, allowDeleteAttached = true, allowCover = false;
    int minShapes = 2, maxShapes = 8, minConns = 1, maxConns = 6, minSteps = 2, maxSteps = 7, maxEditsPerTxn = 3;
    int wMove = 60, wDelete = 10, wAdd = 8, wMoveEnd = 8, wReshape = 6, wAddConn = 4, wDelConn = 4;
    std::function<void(SceneGen &, int, Json &)> pinHook;
    std::function<bool(SceneGen &, Json &, SceneGen::GC &, int)> endHook;
    std::function<void(SceneGen &, Json &)> setupHook, editHook;
};
Json genRouterSession(Rng &r, const RouterGenCfg &g);
Json genSolverSession(Rng &r, const std::string &tier, int forceNs = -1);
Json genOverlapSession(Rng &r, const std::string &tier);
