// Reference models for routes, independent of libavoid:
//  * polyline: visibility graph over end points and obstacle corners + Dijkstra on
//    (vertex, previous vertex), in two path families: "taut" (bends only where the
//    path wraps an obstacle corner, turning towards the obstacle) and "free" (any bend
//    at a corner).  Cost = length + pen * bends.
//  * orthogonal: Hanan-grid Dijkstra with direction state. Cost = Manhattan length + pen * bends.
#pragma once
#include "geom.h"
#include <queue>
#include <map>
#include <set>
#include <tuple>

struct VisOracle {
    std::vector<Poly> polys;
    struct Nd { Pt p; int poly; int vi; };
    // returns optimum cost or -1 if the end points are not connected
    double solve(Pt a, Pt b, double pen, bool taut) const {
        std::vector<Nd> nodes;
        nodes.push_back({a, -1, 0}); nodes.push_back({b, -1, 0});
        for (size_t k = 0; k < polys.size(); k++) for (size_t v = 0; v < polys[k].size(); v++) nodes.push_back({polys[k][v], (int)k, (int)v});
        int N = (int)nodes.size();
        auto wedge = [&](int u, Pt p) -> int {
            const Poly &P = polys[nodes[u].poly]; int nn = (int)P.size();
            Pt bb = P[nodes[u].vi], d = P[(nodes[u].vi + nn - 1) % nn], e = P[(nodes[u].vi + 1) % nn];
            double s1 = cross3(d, bb, p), s2 = cross3(bb, e, p);
            if (s1 > 0 && s2 > 0) return -1;       // inside the corner's interior cone
            if (s1 < 0 && s2 < 0) return -2;       // opposite cone: no shortest path bends here towards it
            if (s1 <= 0 && s2 >= 0) return 1;
            return 2;
        };
        std::vector<std::vector<char>> vis(N, std::vector<char>(N, 0));
        for (int i = 0; i < N; i++) for (int j = i + 1; j < N; j++) {
            bool ok = true;
            for (auto &P : polys) if (segHitsPoly(nodes[i].p, nodes[j].p, P)) { ok = false; break; }
            if (ok && taut) {
                if (i >= 2 && wedge(i, nodes[j].p) < 0) ok = false;
                if (j >= 2 && wedge(j, nodes[i].p) < 0) ok = false;
            }
            vis[i][j] = vis[j][i] = ok;
        }
        typedef std::pair<double, std::pair<int, int>> QE;
        std::priority_queue<QE, std::vector<QE>, std::greater<QE>> pq;
        std::vector<double> dist((size_t)N * (N + 1), 1e300);
        auto key = [&](int u, int pv) { return (size_t)u * (N + 1) + (size_t)(pv + 1); };
        pq.push({0, {0, -1}}); dist[key(0, -1)] = 0;
        while (!pq.empty()) {
            auto top = pq.top(); pq.pop();
            double d = top.first; int u = top.second.first, pv = top.second.second;
            if (dist[key(u, pv)] < d - 1e-12) continue;
            if (u == 1) return d;
            for (int v = 0; v < N; v++) {
                if (v == u || v == pv || !vis[u][v]) continue;
                double c = dist2(nodes[u].p, nodes[v].p);
                if (c == 0) continue;
                if (pv >= 0) {
                    double crs = cross3(nodes[pv].p, nodes[u].p, nodes[v].p);
                    double dt = (nodes[u].p.x - nodes[pv].p.x) * (nodes[v].p.x - nodes[u].p.x) + (nodes[u].p.y - nodes[pv].p.y) * (nodes[v].p.y - nodes[u].p.y);
                    if (!(crs == 0 && dt > 0)) {
                        if (u < 2) continue;                 // no bends at the end points
                        if (crs == 0) continue;              // reversal
                        if (taut) {
                            int wa = wedge(u, nodes[pv].p), wb = wedge(u, nodes[v].p);
                            if (wa == wb) continue;
                            const Poly &P = polys[nodes[u].poly]; int nn = (int)P.size();
                            Pt bb = P[nodes[u].vi], dd = P[(nodes[u].vi + nn - 1) % nn], e = P[(nodes[u].vi + 1) % nn];
                            Pt diag{(dd.x - bb.x) / dist2(dd, bb) + (e.x - bb.x) / dist2(e, bb), (dd.y - bb.y) / dist2(dd, bb) + (e.y - bb.y) / dist2(e, bb)};
                            double ix = nodes[u].p.x - nodes[pv].p.x, iy = nodes[u].p.y - nodes[pv].p.y;
                            double cd = ix * diag.y - iy * diag.x;
                            if ((crs > 0) != (cd > 0)) continue;       // must turn towards the obstacle
                        }
                        c += pen;
                    }
                }
                size_t k2 = key(v, u);
                if (dist[k2] > d + c + 1e-12) { dist[k2] = d + c; pq.push({d + c, {v, u}}); }
            }
        }
        return -1;
    }
};

// Orthogonal reference: rectangles (already grown by the buffer distance), unrestricted end directions.
struct HananOracle {
    std::vector<RectB> rects;
    std::vector<Pt> blocked;          // points no route may pass through (other than as its own start / target)
    double solve(Pt a, Pt b, double pen) const {
        std::set<double> X, Y;
        for (auto &o : rects) { X.insert(o.x); X.insert(o.x + o.w); Y.insert(o.y); Y.insert(o.y + o.h); }
        X.insert(a.x); X.insert(b.x); Y.insert(a.y); Y.insert(b.y);
        for (auto &q : blocked) { X.insert(q.x); Y.insert(q.y); }
        std::vector<double> xs(X.begin(), X.end()), ys(Y.begin(), Y.end());
        int nxs = (int)xs.size(), nys = (int)ys.size();
        auto inside = [&](double x, double y) { for (auto &o : rects) if (x > o.x && x < o.x + o.w && y > o.y && y < o.y + o.h) return true; return false; };
        auto idx = [&](const std::vector<double> &v, double q) { return int(std::lower_bound(v.begin(), v.end(), q) - v.begin()); };
        int si = idx(xs, a.x), sj = idx(ys, a.y), ti = idx(xs, b.x), tj = idx(ys, b.y);
        typedef std::tuple<double, int, int, int> QE;
        std::priority_queue<QE, std::vector<QE>, std::greater<QE>> pq;
        std::vector<double> dist((size_t)nxs * nys * 5, 1e300);
        auto key = [&](int i, int j, int d) { return ((size_t)i * nys + j) * 5 + d; };
        pq.push(QE(0, si, sj, 4)); dist[key(si, sj, 4)] = 0;
        const int di[4] = {1, -1, 0, 0}, dj[4] = {0, 0, 1, -1};
        while (!pq.empty()) {
            QE top = pq.top(); pq.pop();
            double d = std::get<0>(top); int i = std::get<1>(top), j = std::get<2>(top), dir = std::get<3>(top);
            if (dist[key(i, j, dir)] < d - 1e-12) continue;
            if (i == ti && j == tj) return d;
            for (int k = 0; k < 4; k++) {
                int p = i + di[k], q = j + dj[k];
                if (p < 0 || q < 0 || p >= nxs || q >= nys) continue;
                if (dir < 4 && (k ^ 1) == dir) continue;         // no reversal
                double mx = (xs[i] + xs[p]) / 2, my = (ys[j] + ys[q]) / 2;
                if (inside(mx, my)) continue;
                if (!blocked.empty() && !(p == ti && q == tj)) { bool bl = false; for (auto &bq : blocked) if (bq.x == xs[p] && bq.y == ys[q]) bl = true; if (bl) continue; }
                double c = std::fabs(xs[p] - xs[i]) + std::fabs(ys[q] - ys[j]);
                if (dir < 4 && k != dir) c += pen;
                size_t k2 = key(p, q, k);
                if (dist[k2] > d + c + 1e-12) { dist[k2] = d + c; pq.push(QE(d + c, p, q, k)); }
            }
        }
        return -1;
    }
};
