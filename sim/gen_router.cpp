// Plan generator for router sessions: keeps its own scene model while emitting
// ops so that every op is legal (shapes stay interior-disjoint, end points stay
// in free space) and every argument is written out in the plan.
#include "core.h"
#include "geom.h"
#include "router_gen.h"

enum { P_segment = 0, P_angle, P_crossing, P_clusterCrossing, P_fixedShared, P_portDir, P_buffer, P_nudgeDist, P_reverse };
enum { O_nudgeAttached = 0, O_hyperMove, O_penaliseSharedEnds, O_nudgeTouching, O_unifying, O_hyperAddDel, O_nudgeCommonEnd };

static Json ptJ(Pt p) { Json a = Json::arr(); a.push(p.x); a.push(p.y); return a; }
static Json polyJ(const Poly &p) { Json a = Json::arr(); for (auto &q : p) a.push(ptJ(q)); return a; }

Poly SceneGen::mkPoly(const RectB &c, bool &isRect) {
    isRect = true;
    if (!polygons || r.chance(0.4)) return rectPoly(c);
    int kind = 1 + (int)r.below(3);
    double a = c.x + 5 * r.below((uint64_t)(c.w / 5 + 1)), b = c.y + 5 * r.below((uint64_t)(c.h / 5 + 1));
    double d = c.x + 5 * r.below((uint64_t)(c.w / 5 + 1)), e = c.y + 5 * r.below((uint64_t)(c.h / 5 + 1));
    Poly v{{a, c.y}, {c.x + c.w, b}, {d, c.y + c.h}};
    if (kind >= 2) v.push_back({c.x, e});
    if (kind == 3) {   // up to 6 corners: cut two corners of the box
        double k1 = 5 * (1 + r.below(2)), k2 = 5 * (1 + r.below(2));
        if (c.w >= 20 && c.h >= 20) v = Poly{{c.x + k1, c.y}, {c.x + c.w, c.y}, {c.x + c.w, c.y + c.h - k2}, {c.x + c.w - k2, c.y + c.h}, {c.x, c.y + c.h}, {c.x, c.y + k1}};
    }
    Poly u;
    for (auto &pt : v) { bool dup = false; for (auto &z : u) if (samePt(z, pt)) dup = true; if (!dup) u.push_back(pt); }
    if (u.size() < 3) return rectPoly(c);
    if (polyArea2(u) <= 50) return rectPoly(c);
    for (size_t i = 0; i < u.size(); i++) if (cross3(u[i], u[(i + 1) % u.size()], u[(i + 2) % u.size()]) <= 0) return rectPoly(c);
    isRect = false;
    return u;
}

bool SceneGen::boxFree(const RectB &c, int ignore) {
    if (c.x < 0 || c.y < 0 || c.x + c.w > 500 || c.y + c.h > 500) return false;
    for (auto &kv : shapes) if (kv.second.alive && kv.first != ignore && rectsOverlap(c, kv.second.box, gap - 1e-9)) return false;
    for (auto &kv : conns) if (kv.second.alive) for (int k = 0; k < 2; k++) if (kv.second.freeEnd[k]) {
        Pt p = kv.second.e[k];
        // allowCover: a (rectangular) shape may be dragged over a free end point, which then lies well inside it
        if (allowCover && p.x >= c.x + 5 && p.x <= c.x + c.w - 5 && p.y >= c.y + 5 && p.y <= c.y + c.h - 5) continue;
        if (p.x >= c.x - endMargin && p.x <= c.x + c.w + endMargin && p.y >= c.y - endMargin && p.y <= c.y + c.h + endMargin) return false;
    }
    for (auto &kv : junctions) if (kv.second.alive) {
        Pt p = kv.second.p;
        if (p.x >= c.x - endMargin - 5 && p.x <= c.x + c.w + endMargin + 5 && p.y >= c.y - endMargin - 5 && p.y <= c.y + c.h + endMargin + 5) return false;
    }
    return true;
}
bool SceneGen::placeBox(RectB &out) {
    for (int t = 0; t < 60; t++) {
        RectB c{(double)r.below(80) * 5, (double)r.below(70) * 5, (double)(20 + r.below(7) * 10), (double)(20 + r.below(6) * 10)};
        if (touching && r.chance(0.8) && !shapes.empty()) {
            // put it flush against an existing shape (gap 0, possibly collinear edges)
            std::vector<int> ids; for (auto &kv : shapes) if (kv.second.alive) ids.push_back(kv.first);
            if (!ids.empty()) {
                const RectB &o = shapes[r.pick(ids)].box;
                int side = (int)r.below(4);
                if (side == 0) { c.x = o.x + o.w; c.y = o.y + 5 * (double)r.range(-4, 4); }
                else if (side == 1) { c.x = o.x - c.w; c.y = o.y + 5 * (double)r.range(-4, 4); }
                else if (side == 2) { c.y = o.y + o.h; c.x = o.x + 5 * (double)r.range(-4, 4); }
                else { c.y = o.y - c.h; c.x = o.x + 5 * (double)r.range(-4, 4); }
            }
        }
        if (boxFree(c, -1)) { out = c; return true; }
    }
    return false;
}
bool SceneGen::pointFree(Pt p, double margin) {
    for (auto &kv : shapes) if (kv.second.alive) {
        const RectB &o = kv.second.box;
        if (p.x >= o.x - margin && p.x <= o.x + o.w + margin && p.y >= o.y - margin && p.y <= o.y + o.h + margin) return false;
    }
    return true;
}
Pt SceneGen::freePoint() {
    if (edgePoints > 0 && r.chance(edgePoints)) {
        // an end point exactly on a side of a (rectangular) shape, away from its corners and clear of every other shape
        std::vector<int> ids; for (auto &kv : shapes) if (kv.second.alive && kv.second.rect) ids.push_back(kv.first);
        for (int t = 0; t < 20 && !ids.empty(); t++) {
            const RectB &o = shapes[r.pick(ids)].box;
            int side = (int)r.below(4);
            Pt p;
            if (side < 2) { p.x = side == 0 ? o.x : o.x + o.w; p.y = o.y + 5 * (double)r.range(1, std::max(1, (int)(o.h / 5) - 1)); }
            else { p.y = side == 2 ? o.y : o.y + o.h; p.x = o.x + 5 * (double)r.range(1, std::max(1, (int)(o.w / 5) - 1)); }
            bool ok = true;
            for (auto &kv : shapes) if (kv.second.alive && &kv.second.box != &o) { const RectB &q = kv.second.box; if (p.x >= q.x - 1 && p.x <= q.x + q.w + 1 && p.y >= q.y - 1 && p.y <= q.y + q.h + 1) ok = false; }
            if (ok) return p;
        }
    }
    if (edgeLines > 0 && r.chance(edgeLines)) {
        // an end point on the LINE of a side of some shape (same x as its left/right side or same y as its top/bottom side),
        // anywhere in free space: the coincidences of scan-line coordinates that random end points never produce
        std::vector<int> ids; for (auto &kv : shapes) if (kv.second.alive) ids.push_back(kv.first);
        for (int t = 0; t < 40 && !ids.empty(); t++) {
            const RectB &o = shapes[r.pick(ids)].box;
            Pt p{(double)r.below(106) * 5 - 15, (double)r.below(106) * 5 - 15};
            int side = (int)r.below(4);
            if (side == 0) p.x = o.x; else if (side == 1) p.x = o.x + o.w; else if (side == 2) p.y = o.y; else p.y = o.y + o.h;
            if (pointFree(p, endMargin)) return p;
        }
    }
    for (int t = 0; t < 200; t++) {
        Pt p{(double)r.below(106) * 5 - 15, (double)r.below(106) * 5 - 15};
        if (pointFree(p, endMargin)) return p;
    }
    return Pt{-40, -40};
}

int SceneGen::addShape(Json &ops) {
    RectB c;
    if (!placeBox(c)) return -1;
    GS s; s.box = c; s.alive = true;
    s.poly = mkPoly(c, s.rect);
    int id = nextShape++;
    shapes[id] = s;
    Json o = Json::obj(); o.set("op", "addShape"); o.set("id", id); o.set("poly", polyJ(s.poly)); o.set("rect", s.rect);
    if (pinHook) pinHook(*this, id, o);
    ops.push(o);
    return id;
}
int SceneGen::addConn(Json &ops) {
    GC c; c.alive = true;
    Json o = Json::obj(); o.set("op", "addConn"); int id = nextConn++; o.set("id", id);
    Json ends[2];
    for (int k = 0; k < 2; k++) {
        Json e;
        if (endHook && endHook(*this, e, c, k)) { ends[k] = e; continue; }
        if (k == 0 && scanCompanion > 0) {
            // side stream: the source end sits on the scan line of another connector's free end, a few units along it, and may be
            // left only along that line (Up|Down or Left|Right) -- so no perpendicular scan line passes through it and the
            // orthogonal visibility graph joins the two end points by its "neighbouring connector end points" shortcut edges.
            // (Connectors with a direction-restricted end are not judged for optimality; the other connector is.)
            Rng r2(Rng::mix(r.s, "scan-companion"));
            if (r2.chance(scanCompanion)) {
                std::vector<Pt> qs; for (auto &kv : conns) if (kv.second.alive) for (int e = 0; e < 2; e++) if (kv.second.freeEnd[e]) qs.push_back(kv.second.e[e]);
                bool done = false;
                for (int t = 0; t < 12 && !qs.empty() && !done; t++) {
                    Pt q = r2.pick(qs); bool vert = r2.chance(0.5); double d = (double)r2.range(1, 6) * 5 * (r2.chance(0.5) ? 1 : -1);
                    Pt p = vert ? Pt{q.x, q.y + d} : Pt{q.x + d, q.y};
                    bool clash = false; for (auto &o : qs) if (samePt(o, p)) clash = true;
                    if (clash || !pointFree(p, endMargin)) continue;
                    c.e[k] = p; c.freeEnd[k] = true;
                    e = Json::obj(); e.set("pt", ptJ(p)); e.set("dirs", (long)(vert ? 3 : 12));
                    ends[k] = e; done = true;
                }
                if (done) continue;
            }
        }
        Pt p = freePoint();
        if (k == 1 && samePt(p, c.e[0]) && c.freeEnd[0]) p.x += 5;
        c.e[k] = p; c.freeEnd[k] = true;
        e = Json::obj(); e.set("pt", ptJ(p));
        if (dirRestrict && r.chance(0.3)) e.set("dirs", (long)(1 + r.below(15)));
        ends[k] = e;
    }
    o.set("src", ends[0]); o.set("dst", ends[1]);
    o.set("ctor", (long)r.below(2));
    if (checkpoints && r.chance(0.3)) {
        Json cp = Json::arr(); int n = r.range(1, 2);
        for (int i = 0; i < n; i++) { Pt q = freePoint(); cp.push(ptJ(q)); c.cps.push_back(q); }
        o.set("checkpoints", cp);
    }
    conns[id] = c;
    ops.push(o);
    return id;
}
bool SceneGen::moveShape(Json &ops) {
    std::vector<int> ids; for (auto &kv : shapes) if (kv.second.alive) ids.push_back(kv.first);
    if (ids.empty()) return false;
    for (int t = 0; t < 10; t++) {
        int id = r.pick(ids);
        double dx = 5 * (double)r.range(-12, 12), dy = 5 * (double)r.range(-12, 12);
        if (r.chance(0.15)) { dx = 0; if (r.chance(0.5)) dy = 0; }
        if (allowCover && r.chance(0.4)) {
            // drag the shape's centre onto (or next to) some free end point
            std::vector<Pt> eps; for (auto &kv : conns) if (kv.second.alive) for (int k = 0; k < 2; k++) if (kv.second.freeEnd[k]) eps.push_back(kv.second.e[k]);
            if (!eps.empty()) { Pt e = r.pick(eps); const RectB &b = shapes[id].box; dx = 5 * std::round((e.x - (b.x + b.w / 2)) / 5) + 5 * (double)r.range(-1, 1); dy = 5 * std::round((e.y - (b.y + b.h / 2)) / 5) + 5 * (double)r.range(-1, 1); }
        }
        RectB c = shapes[id].box; c.x += dx; c.y += dy;
        if (!boxFree(c, id)) continue;
        // checkpoints must stay in free space as well
        bool ok = true;
        for (auto &kv : conns) if (kv.second.alive) for (auto &q : kv.second.cps) if (q.x >= c.x - endMargin && q.x <= c.x + c.w + endMargin && q.y >= c.y - endMargin && q.y <= c.y + c.h + endMargin) ok = false;
        if (!ok) continue;
        shapes[id].box = c;
        for (auto &q : shapes[id].poly) { q.x += dx; q.y += dy; }
        Json o = Json::obj(); o.set("op", "moveShape"); o.set("id", id); o.set("dx", dx); o.set("dy", dy);
        ops.push(o);
        return true;
    }
    return false;
}
bool SceneGen::reshape(Json &ops) {
    // Obstacle::setNewPoly requires the same number of vertices: only rectangles are resized
    std::vector<int> ids; for (auto &kv : shapes) if (kv.second.alive && kv.second.rect) ids.push_back(kv.first);
    if (ids.empty()) return false;
    for (int t = 0; t < 10; t++) {
        int id = r.pick(ids);
        RectB c = shapes[id].box;
        c.w = 20 + r.below(7) * 10; c.h = 20 + r.below(6) * 10;
        if (r.chance(0.5)) { c.x += 5 * (double)r.range(-4, 4); c.y += 5 * (double)r.range(-4, 4); }
        if (!boxFree(c, id)) continue;
        bool ok = true;
        for (auto &kv : conns) if (kv.second.alive) for (auto &q : kv.second.cps) if (q.x >= c.x - endMargin && q.x <= c.x + c.w + endMargin && q.y >= c.y - endMargin && q.y <= c.y + c.h + endMargin) ok = false;
        if (!ok) continue;
        bool keepRect = true;
        shapes[id].box = c;
        bool isRect = true;
        shapes[id].poly = keepRect ? rectPoly(c) : mkPoly(c, isRect);
        shapes[id].rect = keepRect ? true : isRect;
        Json o = Json::obj(); o.set("op", "reshape"); o.set("id", id); o.set("poly", polyJ(shapes[id].poly)); o.set("rect", shapes[id].rect);
        ops.push(o);
        return true;
    }
    return false;
}
bool SceneGen::deleteShape(Json &ops, const std::set<int> &notThese) {
    std::vector<int> ids; for (auto &kv : shapes) if (kv.second.alive && !notThese.count(kv.first) && (allowDeleteAttached || kv.second.attached == 0)) ids.push_back(kv.first);
    if (ids.size() < 1) return false;
    int id = r.pick(ids);
    shapes[id].alive = false;
    Json o = Json::obj(); o.set("op", "deleteShape"); o.set("id", id); ops.push(o);
    return true;
}
bool SceneGen::moveEnd(Json &ops) {
    std::vector<int> ids; for (auto &kv : conns) if (kv.second.alive && !kv.second.hyper) ids.push_back(kv.first);
    if (ids.empty()) return false;
    int id = r.pick(ids); int which = (int)r.below(2);
    if (!conns[id].freeEnd[which]) return false;
    Pt p = freePoint();
    if (samePt(p, conns[id].e[1 - which])) p.x += 5;
    conns[id].e[which] = p;
    Json e = Json::obj(); e.set("pt", ptJ(p));
    Json o = Json::obj(); o.set("op", "moveEnd"); o.set("id", id); o.set("which", which); o.set("end", e); ops.push(o);
    return true;
}
bool SceneGen::deleteConn(Json &ops) {
    std::vector<int> ids; for (auto &kv : conns) if (kv.second.alive && !kv.second.hyper) ids.push_back(kv.first);
    if (ids.size() < 2) return false;
    int id = r.pick(ids);
    conns[id].alive = false;
    if (conns[id].shapeEnd[0] >= 0) shapes[conns[id].shapeEnd[0]].attached--;
    if (conns[id].shapeEnd[1] >= 0) shapes[conns[id].shapeEnd[1]].attached--;
    Json o = Json::obj(); o.set("op", "deleteConn"); o.set("id", id); ops.push(o);
    return true;
}

Json genRouterSession(Rng &r, const RouterGenCfg &g) {
    Json s = Json::obj(); s.set("kind", "router");
    Json cfg = Json::obj();
    cfg.set("mode", g.ortho ? "ortho" : "poly");
    cfg.set("transactions", g.transactions);
    cfg.set("cost_oracles", g.costOracles);
    cfg.set("pins_geometry", g.pinsGeometry);
    Json params = Json::obj();
    for (auto &kv : g.params) params.set(fmt("%d", kv.first), kv.second);
    cfg.set("params", params);
    Json options = Json::obj();
    for (auto &kv : g.options) options.set(fmt("%d", kv.first), kv.second);
    cfg.set("options", options);
    {
        std::string style = g.ortho ? "ortho" : "poly";
        auto has = [&](int k) { auto it = g.params.find(k); return it != g.params.end() && it->second > 0; };
        if (has(P_crossing) || has(P_fixedShared)) style += "+crossing-penalties";
        if (g.touching) style += "+touching";
        if (!g.styleExtra.empty()) style += "+" + g.styleExtra;
        cfg.set("style", style);
    }
    cfg.set("SelectiveReroute", g.selective); cfg.set("InvisibilityGrph", g.invis); cfg.set("UseLeesAlgorithm", g.lees);
    s.set("cfg", cfg);

    SceneGen sg(r);
    sg.gap = g.gap; sg.endMargin = g.endMargin; sg.polygons = g.polygons; sg.touching = g.touching; sg.dirRestrict = g.dirRestrict; sg.checkpoints = g.checkpoints;
    sg.pinHook = g.pinHook; sg.endHook = g.endHook; sg.allowDeleteAttached = g.allowDeleteAttached; sg.allowCover = g.allowCover; sg.edgePoints = g.edgePoints; sg.edgeLines = g.edgeLines; sg.scanCompanion = g.scanCompanion;
    Json ops = Json::arr();
    int ns = r.range(g.minShapes, g.maxShapes), nc = r.range(g.minConns, g.maxConns);
    for (int i = 0; i < ns; i++) sg.addShape(ops);
    for (int i = 0; i < nc; i++) sg.addConn(ops);
    if (g.setupHook) g.setupHook(sg, ops);
    auto processOp = [&](bool allowCancel) {
        Json o = Json::obj(); o.set("op", "process");
        Json fl = Json::arr();
        bool cancelled = false;
        if (allowCancel && g.cancelFaults && r.chance(0.35)) {
            Json f = Json::obj();
            if (r.chance(0.8)) f.set("cancel_at", (long)r.range(1, 30)); else f.set("deadline_ms", (long)r.range(0, 50));
            fl.push(f); cancelled = true;
        }
        if (r.chance(0.03)) { Json f = Json::obj(); f.set("clock_unavailable", (long)r.range(1, 5)); fl.push(f); }
        if (fl.size()) o.set("faults", fl);
        ops.push(o);
        if (cancelled) {
            // recovery: after 0-2 further edits the client forces a complete transaction
            int k = (int)r.below(3);
            for (int j = 0; j < k; j++) sg.moveShape(ops);
            Json rec = Json::obj(); rec.set("op", "recover"); ops.push(rec);
        }
    };
    processOp(true);
    int steps = r.range(g.minSteps, g.maxSteps);
    for (int st = 0; st < steps; st++) {
        int ne = r.range(1, g.maxEditsPerTxn);
        std::set<int> added;
        if (r.chance(0.08)) ne = 0;              // empty transaction
        for (int k = 0; k < ne; k++) {
            int what = (int)r.below(100);
            size_t before = ops.size();
            if (what < g.wMove) sg.moveShape(ops);
            else if (what < g.wMove + g.wDelete) sg.deleteShape(ops, added);
            else if (what < g.wMove + g.wDelete + g.wAdd) { int id = sg.addShape(ops); if (id >= 0) added.insert(id); }
            else if (what < g.wMove + g.wDelete + g.wAdd + g.wMoveEnd) sg.moveEnd(ops);
            else if (what < g.wMove + g.wDelete + g.wAdd + g.wMoveEnd + g.wReshape) sg.reshape(ops);
            else if (what < g.wMove + g.wDelete + g.wAdd + g.wMoveEnd + g.wReshape + g.wAddConn) sg.addConn(ops);
            else if (what < g.wMove + g.wDelete + g.wAdd + g.wMoveEnd + g.wReshape + g.wAddConn + g.wDelConn) sg.deleteConn(ops);
            else if (g.editHook) g.editHook(sg, ops);
            (void)before;
        }
        if (g.outputOps && r.chance(0.1)) {
            Json o = Json::obj(); o.set("op", "output"); o.set("what", r.pick(std::vector<std::string>{"svg", "text", "diagram", "diagramsvg"}));
            if (r.chance(0.5)) { Json fl = Json::arr(); Json f = Json::obj(); f.set("fopen", r.chance(0.5) ? "ENOSPC" : "EACCES"); f.set("count", (long)r.range(1, 2)); fl.push(f); o.set("faults", fl); }
            else if (r.chance(0.3)) o.set("short_write_every", (long)r.range(1, 5));
            ops.push(o);
        }
        if (!g.transactions && g.cancelFaults && r.chance(0.3) && ops.size() > 0) {
            // immediate mode: the fault hits the implicit transaction of the last edit of this step
            Json &last = ops.a.back();
            std::string lo = last.str("op", "");
            if (lo == "moveShape" || lo == "moveEnd" || lo == "reshape" || lo == "deleteShape") {
                Json fl = Json::arr(); Json f = Json::obj(); f.set("cancel_at", (long)r.range(1, 20)); fl.push(f); last.set("faults", fl);
                Json rec = Json::obj(); rec.set("op", "recover"); ops.push(rec);
            }
        }
        processOp(g.transactions);
    }
    if (g.trailingEdits && r.chance(0.3)) { sg.moveShape(ops); if (r.chance(0.5)) sg.deleteConn(ops); }   // destroyed with queued actions
    s.set("ops", ops);
    return s;
}
