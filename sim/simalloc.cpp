// SimAlloc: seeded, fixed-address arena behind global operator new/delete.
// Library-scope allocations (tl_libscope>0) are served from an arena mapped at
// a fixed address, so pointer values -- and with them every pointer-ordered
// container inside the libraries -- are a function of the plan only.  Which
// free slot is handed out is drawn from the plan's "alloc" stream.
// Harness allocations use libc malloc and never draw from the stream.
#include "core.h"
#include <new>
#include <sys/mman.h>
#include <cstdio>
#include <cstdlib>

thread_local int tl_libscope = 0;

#ifndef SIM_SAN
static const uintptr_t BASE = 0x200000000000ULL;
static const size_t ARENA = (size_t)16 << 30;
static char *arena = nullptr;
static size_t brk_ = 0;
static uint64_t rs = 88172645463325252ULL;
static int placement = 0;          // 0 random, 1 lifo, 2 fifo
static int fillmode = 0;           // 0 random, 1 zero, 2 0xAB
static bool configured = false;
static SimAllocStats st;
static std::mutex *amu = nullptr;  // tasks are serialised, but be safe
static inline uint64_t nxt() { rs ^= rs << 13; rs ^= rs >> 7; rs ^= rs << 17; return rs; }

static const size_t RZ = 16;
struct Hdr { uint32_t cls; uint32_t magic; size_t req; uint64_t serial; uint64_t pad; };   // 32 bytes
static const int NCLS = 56;
struct FreeList { void **v; size_t n, cap, head; };
static FreeList fl[NCLS];
static size_t cls_size(int c) { return ((size_t)16 << (c / 2)) | ((c & 1) ? ((size_t)8 << (c / 2)) : 0); }
static int cls_for(size_t n) { for (int c = 0; c < NCLS; c++) if (cls_size(c) >= n) return c; return -1; }

static void init() {
    arena = (char *)mmap((void *)BASE, ARENA, PROT_READ | PROT_WRITE,
                         MAP_PRIVATE | MAP_ANONYMOUS | MAP_NORESERVE | MAP_FIXED_NOREPLACE, -1, 0);
    if (arena == MAP_FAILED || (uintptr_t)arena != BASE) { fprintf(stderr, "simalloc: arena map failed\n"); abort(); }
    amu = new (malloc(sizeof(std::mutex))) std::mutex();
}
static void *raw(size_t n) {
    n = (n + 15) & ~(size_t)15;
    void *p = arena + brk_;
    brk_ += n;
    if (brk_ > ARENA) { fprintf(stderr, "simalloc: arena exhausted\n"); abort(); }
    return p;
}
static void flpush(FreeList &f, void *p) {
    if (f.head > 0 && f.head == f.n) { f.head = f.n = 0; }
    if (f.n + 1 > f.cap) {
        size_t nc = f.cap ? f.cap * 2 : 256;
        void **nf = (void **)raw(nc * sizeof(void *));
        memcpy(nf, f.v + f.head, (f.n - f.head) * sizeof(void *));
        f.n -= f.head; f.head = 0; f.v = nf; f.cap = nc;
    }
    f.v[f.n++] = p;
}
static void refill(int c) {
    size_t sz = cls_size(c) + sizeof(Hdr) + RZ;
    int batch = sz > 65536 ? 1 : 16;
    for (int i = 0; i < batch; i++) flpush(fl[c], raw(sz));
}
static uint64_t serial = 0;
static uintptr_t lastAddr[NCLS];
static void *sim_malloc(size_t n) {
    if (!arena) init();
    std::lock_guard<std::mutex> g(*amu);
    if (n == 0) n = 1;
    int c = cls_for(n);
    if (c < 0) abort();
    FreeList &f = fl[c];
    if (f.n == f.head) refill(c);
    size_t live = f.n - f.head, k;
    if (placement == 1) k = f.n - 1;
    else if (placement == 2) k = f.head;
    else k = f.head + nxt() % live;
    void *p = f.v[k];
    if (k == f.head) f.head++;
    else { f.v[k] = f.v[f.n - 1]; f.n--; }
    Hdr *h = (Hdr *)p;
    if (lastAddr[c] && (uintptr_t)p < lastAddr[c]) st.reuse_out_of_order++;   // address order inverts allocation order
    lastAddr[c] = (uintptr_t)p;
    h->cls = c; h->magic = 0xA110Cu; h->req = n; h->serial = ++serial;
    char *u = (char *)(h + 1);
    unsigned char fb = fillmode == 1 ? 0 : fillmode == 2 ? 0xAB : (unsigned char)((nxt() >> 56) | 1);
    memset(u, fb, n);
    memset(u + n, 0xFD, RZ);
    st.allocs++; st.bytes_live += n;
    return u;
}
#include <execinfo.h>
// where the damaged block is being freed (its owner): raw return addresses, resolved by the parent (ASLR is off)
static void freeSiteFrames() {
    void *bt[24];
    int n = backtrace(bt, 24);
    for (int i = 0; i < n; i++) fprintf(stderr, "SIMAFRAME %p\n", bt[i]);
}
static void sim_free(void *u) {
    std::lock_guard<std::mutex> g(*amu);
    Hdr *h = (Hdr *)u - 1;
    if (h->magic != 0xA110Cu) {
        st.redzone_errors++;
        fprintf(stderr, "SIMALLOC: invalid or double free of %p\n", u);
        freeSiteFrames();
        return;
    }
    unsigned char *rz = (unsigned char *)u + h->req;
    for (size_t i = 0; i < RZ; i++) if (rz[i] != 0xFD) { st.redzone_errors++; fprintf(stderr, "SIMALLOC: red zone overwritten after %p (+%zu)\n", u, i); freeSiteFrames(); break; }
    st.frees++; st.bytes_live -= h->req;
    memset(u, 0xDD, h->req);
    h->magic = 0xF4EEu;
    flpush(fl[h->cls], h);
}
static inline bool in_arena(void *p) { return arena && (char *)p >= arena && (char *)p < arena + ARENA; }

void simalloc_configure(uint64_t seed, const std::string &pl, const std::string &fi) {
    if (!arena) init();
    rs = seed * 0x9E3779B97F4A7C15ULL + 0x1234567;
    if (!rs) rs = 1;
    placement = pl == "lifo" ? 1 : pl == "fifo" ? 2 : 0;
    fillmode = fi == "zero" ? 1 : fi == "ab" ? 2 : 0;
    configured = true;
}
SimAllocStats simalloc_stats() { return st; }
bool simalloc_active() { return true; }

static inline void *anew(size_t n) {
    if (tl_libscope > 0 && configured) return sim_malloc(n);
    void *p = malloc(n ? n : 1);
    if (!p) throw std::bad_alloc();
    return p;
}
static inline void adel(void *p) {
    if (!p) return;
    if (in_arena(p)) sim_free(p); else free(p);
}
void *operator new(size_t n) { return anew(n); }
void *operator new[](size_t n) { return anew(n); }
void operator delete(void *p) noexcept { adel(p); }
void operator delete[](void *p) noexcept { adel(p); }
void operator delete(void *p, size_t) noexcept { adel(p); }
void operator delete[](void *p, size_t) noexcept { adel(p); }
#else
// Sanitizer build: the sanitizer's allocator is kept (its checks are the point).
void simalloc_configure(uint64_t, const std::string &, const std::string &) {}
SimAllocStats simalloc_stats() { return SimAllocStats(); }
bool simalloc_active() { return false; }
#endif
