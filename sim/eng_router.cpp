// E-ROUTER: an interactive editor session on one Avoid::Router, with a scene
// model and independent oracles.  Serves C03 C04 C05 C06 (C10 C11 C12 in
// eng_router2.cpp through the hooks below) and feeds C15/C20.
#include "router_session.h"
#include "sigs.h"

using namespace Avoid;

// ------------------------------------------------------------------ SimRouter
bool SimRouter::shouldContinueTransactionWithProgress(unsigned int elapsedTime, unsigned int phaseNumber, unsigned int totalPhases, double proportion) {
    HarnessScope hs;
    s->checks++;
    s->lastElapsed = elapsedTime;
    s->w->log.ev("progress", phaseNumber, (long)elapsedTime);
    if (phaseNumber == TransactionPhaseCompleted) return true;
    s->probe("router.continuation-check");
    s->w->yieldFrom(s->id, "router-cb", true);
    if (s->cancelAt > 0 && s->checks == s->cancelAt) {
        s->cancelRequested = true;
        s->w->fault("cancel_requested");
        s->w->fault(fmt("cancel_requested.phase%u", phaseNumber));
        return false;
    }
    if (s->deadlineMs > 0 && (long)elapsedTime > s->deadlineMs) {
        // a client that cancels on a deadline measured with the (simulated) clock
        s->cancelRequested = true;
        s->w->fault("cancel_on_deadline");
        return false;
    }
    return true;
}

static void connCallback(void *p) {
    RouterSession::CbCtx *c = (RouterSession::CbCtx *)p;
    HarnessScope hs;
    c->s->callbacks[c->conn]++;
    c->s->probe("router.conn-callback");
    c->s->w->log.ev("conn-cb", c->conn);
}

// ------------------------------------------------------------------ helpers
static Polygon toAvoid(const Poly &p) {
    Polygon g(p.size());
    for (size_t i = 0; i < p.size(); i++) g.ps[i] = Point(p[i].x, p[i].y);
    return g;
}
Poly polyFromJson(const Json &j) { Poly p; for (auto &q : j.a) p.push_back(Pt{q[0].num(), q[1].num()}); return p; }
Json polyToJson(const Poly &p) { Json a = Json::arr(); for (auto &q : p) { Json e = Json::arr(); e.push(q.x); e.push(q.y); a.push(e); } return a; }
std::vector<Pt> routePts(const Avoid::PolyLine &r) { std::vector<Pt> v; for (auto &p : r.ps) v.push_back(Pt{p.x, p.y}); return v; }

RouterSession::End RouterSession::endFromJson(const Json &j) {
    End e;
    if (j.has("pt")) { e.kind = 0; e.pt = Pt{j["pt"][0].num(), j["pt"][1].num()}; e.dirs = (unsigned)j.i("dirs", 15); if (e.dirs != 15) everRestrictedEnds.push_back(e.pt); }
    else if (j.has("shape")) { e.kind = 1; e.shape = (int)j["shape"].i(); e.cls = (int)j.i("cls", 1); }
    else if (j.has("junction")) { e.kind = 2; e.junction = (int)j["junction"].i(); }
    return e;
}
bool RouterSession::endValid(const End &e) {
    if (e.kind == 1) {
        auto it = shapes.find(e.shape);
        if (it == shapes.end() || !it->second.alive) return false;
        for (auto &p : it->second.pins) if (p.cls == e.cls) return true;      // attaching to a pin class the shape does not have is not valid use
        return false;
    }
    if (e.kind == 2) { auto it = junctions.find(e.junction); return it != junctions.end() && it->second.alive; }
    return true;
}
ConnEnd RouterSession::mkEnd(const End &e) {
    if (e.kind == 1) return ConnEnd(shapes[e.shape].ref, (unsigned)e.cls);
    if (e.kind == 2) return ConnEnd(junctions[e.junction].ref);
    return ConnEnd(Point(e.pt.x, e.pt.y), (ConnDirFlags)e.dirs);
}

void RouterSession::applyConfig(Router *r, bool live) {
    for (auto &kv : params) r->setRoutingParameter((RoutingParameter)kv.first, kv.second);
    for (auto &kv : options) r->setRoutingOption((RoutingOption)kv.first, kv.second);
    r->SelectiveReroute = tunSelective; r->InvisibilityGrph = tunInvis; r->UseLeesAlgorithm = tunLees; r->RubberBandRouting = false;
    (void)live;
}

double RouterSession::routeCost(ConnRef *c) {
    if (!ortho) return polyLen(routePts(c->displayRoute()));
    std::vector<Pt> r = simplifyRoute(routePts(c->route()));
    double len = 0;
    for (size_t i = 1; i < r.size(); i++) len += std::fabs(r[i].x - r[i - 1].x) + std::fabs(r[i].y - r[i - 1].y);
    double p = params.count(segmentPenalty) ? params[segmentPenalty] : 10;
    return len + p * std::max(0, (int)r.size() - 2);
}

std::string RouterSession::describeScene() {
    std::string s;
    for (auto &kv : shapes) if (kv.second.alive) { s += fmt(" S%d[", kv.first); for (auto &q : kv.second.poly) s += fmt("(%g,%g)", q.x, q.y); s += "]"; }
    return s;
}

// library call wrapper: exceptions are mid-operation failures of a live object (S8)
template <class F> static std::string guardedCall(RouterSession *s, F fn) {
    try { LibScope ls; fn(); }
    catch (vpsc::CriticalFailure &f) { HarnessScope hs; return assertSig(f); }
    catch (std::exception &e) { return "std::exception"; }
    catch (const char *) { return "char*"; }
    catch (...) { return "unknown-exception"; }
    return "";
}

// ------------------------------------------------------------------ C03: validity of every route
void RouterSession::checkValidity(const char *when) {
    for (auto &kv : conns) {
        Cn &c = kv.second;
        if (!c.alive || c.hyperedge) continue;
        for (int which = 0; which < 2; which++) {
            std::vector<Pt> r = routePts(which ? c.ref->route() : c.ref->displayRoute());
            const char *wn = which ? "route" : "displayRoute";
            if (r.size() < 2) { violate("C03", "two-points", fmt("%s-has-fewer-than-2-points", wn), fmt("conn %d after %s: %zu points", kv.first, when, r.size())); continue; }
            // end points: free points must be exactly the model's; pins/junctions are judged by C11/C12
            bool endsFree = c.e[0].kind == 0 && c.e[1].kind == 0;
            if (endsFree) {
                Pt a = r.front(), b = r.back();
                bool ok = (samePt(a, c.e[0].pt) && samePt(b, c.e[1].pt)) || (samePt(a, c.e[1].pt) && samePt(b, c.e[0].pt));
                if (!ok && !(which == 0 && ortho && optNudgeAttached()))
                    violate("C03", "endpoints", fmt("%s-does-not-join-its-endpoints", wn), fmt("conn %d after %s: (%g,%g)..(%g,%g) expected (%g,%g)..(%g,%g)", kv.first, when, a.x, a.y, b.x, b.y, c.e[0].pt.x, c.e[0].pt.y, c.e[1].pt.x, c.e[1].pt.y));
            }
            if (!endsFree && !armedPinsGeometry) continue;     // geometry of attached ends: see C11
            if (c.detachedByDelete) continue;                  // the object an end was attached to has been deleted under it: no attachment left to join (domain of the statement)
            // interior: no segment through a shape that does not contain an end point
            Pt ea = r.front(), eb = r.back();
            for (auto &sk : shapes) {
                Sh &sh = sk.second;
                if (!sh.alive) continue;
                if (ptInPolyClosed(ea, sh.poly) || ptInPolyClosed(eb, sh.poly)) continue;
                if (c.e[0].kind == 1 && c.e[0].shape == sk.first) continue;
                if (c.e[1].kind == 1 && c.e[1].shape == sk.first) continue;
                bool hit = false; size_t seg = 0;
                for (size_t i = 1; i < r.size() && !hit; i++) if (segHitsPoly(r[i - 1], r[i], sh.poly, 1e-7)) { hit = true; seg = i; }
                if (!hit) continue;
                if (!pathExists(c)) { probe("router.no-free-path"); continue; }
                // classifiers for known defects (DESIGN.md section 6)
                curRoute = r;
                std::string sig = "through-shape" + throughShapeClass(c, r[seg - 1], r[seg], sh.poly);
                curRoute.clear();
                if (sig == "through-shape" && which == 0 && ortho) {
                    // the display route is the nudged one: nudging shifts a segment off the line it was routed along (y=305 -> 304),
                    // so the known classes, which speak about the line the search used, are looked up on the un-nudged route()
                    std::vector<Pt> rr = routePts(c.ref->route());
                    curRoute = rr;
                    bool rawHits = false;
                    for (size_t i = 1; i < rr.size() && sig == "through-shape"; i++) if (segHitsPoly(rr[i - 1], rr[i], sh.poly, 1e-7)) { rawHits = true; sig += throughShapeClass(c, rr[i - 1], rr[i], sh.poly); }
                    curRoute.clear();
                    // KF-C03-f: the raw route keeps clear of the shape; it has an interior segment that lies inside the connector's OWN pinned shape
                    // (on its way to a pin set back from the boundary), and nudging centred that segment between the far ends of its
                    // neighbours as if nothing were in the way
                    if (sig == "through-shape" && !rawHits && rr.size() >= 4) {
                        bool inside = false;
                        for (int e = 0; e < 2; e++) if (c.e[e].kind == 1 && shapes.count(c.e[e].shape) && shapes[c.e[e].shape].alive)
                            for (size_t i = 2; i + 1 < rr.size(); i++) { Pt m{(rr[i - 1].x + rr[i].x) / 2, (rr[i - 1].y + rr[i].y) / 2}; if (ptInPolyClosed(m, shapes[c.e[e].shape].poly)) inside = true; }
                        if (inside) sig += ":a-segment-inside-the-connectors-own-pinned-shape-was-centred-by-nudging";
                    }
                }
                if (ortho && r.size() == 2 && (c.e[0].dirs != 15 || c.e[1].dirs != 15) && sig == "through-shape") sig += ":direction-restricted-free-end-fallback";
                std::string rt; for (auto &qq : r) rt += fmt("(%g,%g)", qq.x, qq.y);
                violate("C03", "interior", sig, fmt("conn %d %s after %s: segment (%g,%g)-(%g,%g) passes through shape %d; route %s;%s", kv.first, wn, when, r[seg - 1].x, r[seg - 1].y, r[seg].x, r[seg].y, sk.first, rt.c_str(), describeScene().c_str()));
                which = 2;
                break;
            }
            if (ortho) for (size_t i = 1; i < r.size(); i++) if (r[i].x != r[i - 1].x && r[i].y != r[i - 1].y) {
                if (c.detachedByDelete) break;
                violate("C05", "axis-parallel", fmt("%s-has-diagonal-segment", wn), fmt("conn %d after %s: (%g,%g)-(%g,%g)", kv.first, when, r[i - 1].x, r[i - 1].y, r[i].x, r[i].y));
                break;
            }
        }
    }
}

// which known defect (if any) explains a segment through a shape
std::string RouterSession::throughShapeClass(const Cn &c, Pt p, Pt q, const Poly &poly) {
    if (c.detachedByDelete) return ":end-detached-by-shape-deletion";
    // KF-C03-b: the search stepped through a connection pin of the crossed (unrelated) shape -- pin vertices are ordinary
    // visibility vertices for every connector, and the way to a pin inside a shape leads through that shape
    for (auto &sk : shapes) if (sk.second.alive && &sk.second.poly == &poly) for (auto &pm : sk.second.pins) {
        RectB b = bbox(poly);
        Pt pp;
        if (pm.prop) { pp.x = pm.xo == 0 ? b.x + pm.inside : pm.xo == 1 ? b.x + b.w - pm.inside : b.x + pm.xo * b.w; pp.y = pm.yo == 0 ? b.y + pm.inside : pm.yo == 1 ? b.y + b.h - pm.inside : b.y + pm.yo * b.h; }
        else { pp.x = pm.xo == 0 ? b.x + pm.inside : (pm.xo == -1 || pm.xo == b.w) ? b.x + b.w - pm.inside : b.x + pm.xo; pp.y = pm.yo == 0 ? b.y + pm.inside : (pm.yo == -1 || pm.yo == b.h) ? b.y + b.h - pm.inside : b.y + pm.yo; }
        if (ptSegDist(pp, p, q) < 1e-9) return ":via-a-connection-pin-of-the-crossed-shape";
        // orthogonal: the segment runs along the visibility line that pin throws through its own shape
        if (ortho && ((p.x == q.x && std::fabs(p.x - pp.x) < 1e-9) || (p.y == q.y && std::fabs(p.y - pp.y) < 1e-9))) return ":via-a-connection-pin-of-the-crossed-shape";
        for (size_t i = 1; i < curRoute.size(); i++) if (ptSegDist(pp, curRoute[i - 1], curRoute[i]) < 1e-9) return ":via-a-connection-pin-of-the-crossed-shape";
    }
    if (ortho) {
        // KF-C03-d: another connector's end point lies inside the crossed shape (a shape was dragged over it) and the segment runs
        // along the visibility line that end point throws through the shape
        for (auto &kv : conns) {
            const Cn &o = kv.second;
            if (!o.alive || &o == &c) continue;
            for (int e = 0; e < 2; e++) if (o.e[e].kind == 0 && ptInPolyClosed(o.e[e].pt, poly)) {
                Pt pp = o.e[e].pt;
                if ((p.x == q.x && std::fabs(p.x - pp.x) < 1e-9) || (p.y == q.y && std::fabs(p.y - pp.y) < 1e-9)) return ":along-the-visibility-line-of-another-connectors-end-point-inside-the-crossed-shape";
                for (size_t i = 1; i < curRoute.size(); i++) if ((curRoute[i - 1].x == curRoute[i].x && std::fabs(curRoute[i].x - pp.x) < 1e-9) || (curRoute[i - 1].y == curRoute[i].y && std::fabs(curRoute[i].y - pp.y) < 1e-9)) return ":along-the-visibility-line-of-another-connectors-end-point-inside-the-crossed-shape";
            }
        }
        return "";
    }
    // Degenerate contact: the segment enters and leaves the crossed shape exactly at shape vertices (vertices of the
    // crossed shape itself -- a diagonal pass -- or of shapes touching it).  libavoid's blocking test treats a touch
    // at a vertex as harmless, so such a segment is not seen as blocked (KF-C03-a).
    // with a shape buffer distance the router works on the routing boxes (shapes grown by the buffer): the same degenerate contact is
    // then between the grown boxes (rectangles only: the generators use no other polygons together with a buffer)
    double bufd = params.count(shapeBufferDistance) ? params[shapeBufferDistance] : 0;
    auto grown = [&](const Poly &pl) { if (bufd <= 0) return pl; RectB b = bbox(pl); return rectPoly(RectB{b.x - bufd, b.y - bufd, b.w + 2 * bufd, b.h + 2 * bufd}); };
    const Poly gp = grown(poly);
    double t0 = 0, t1 = 1;
    int n = (int)gp.size();
    for (int i = 0; i < n; i++) {
        Pt a = gp[i], b = gp[(i + 1) % n];
        double dp = cross3(a, b, p), dq = cross3(a, b, q);
        if (dp <= 0 && dq <= 0) return "";
        if (dp > 0 && dq > 0) continue;
        double t = dp / (dp - dq);
        if (dp <= 0) { if (t > t0) t0 = t; } else { if (t < t1) t1 = t; }
    }
    Pt e0{p.x + t0 * (q.x - p.x), p.y + t0 * (q.y - p.y)}, e1{p.x + t1 * (q.x - p.x), p.y + t1 * (q.y - p.y)};
    auto isVertex = [&](Pt e) {
        for (auto &sk : shapes) if (sk.second.alive) for (auto &v : grown(sk.second.poly)) if (std::fabs(v.x - e.x) < 1e-7 && std::fabs(v.y - e.y) < 1e-7) return true;
        return false;
    };
    // one contact only: the segment starts (or ends) at a vertex of ANOTHER shape that lies in the open interior of an edge of the crossed
    // shape (shapes touching along a side) and cuts properly through a second edge -- a corner of the crossed shape is clipped
    {
        auto ownV = [&](Pt e) { for (auto &v : gp) if (std::fabs(v.x - e.x) < 1e-7 && std::fabs(v.y - e.y) < 1e-7) return true; return false; };
        bool v0 = isVertex(e0) && !ownV(e0), v1 = isVertex(e1) && !ownV(e1);
        if ((v0 && !isVertex(e1)) || (v1 && !isVertex(e0))) return ":enters-at-a-vertex-of-a-touching-shape-and-clips-a-corner-of-the-crossed-shape";
    }
    if (isVertex(e0) && isVertex(e1)) {
        // sub-class: BOTH contact points are vertices of other (touching) shapes lying in the open interior of an edge of the crossed
        // shape -- a chord between two mid-edge contacts, not a pass through one of the crossed shape's own corners
        auto ownVertex = [&](Pt e) { for (auto &v : gp) if (std::fabs(v.x - e.x) < 1e-7 && std::fabs(v.y - e.y) < 1e-7) return true; return false; };
        if (!ownVertex(e0) && !ownVertex(e1)) return ":enters-and-leaves-at-shape-vertices:both-contacts-in-the-middle-of-edges-of-the-crossed-shape";
        return ":enters-and-leaves-at-shape-vertices";
    }
    return "";
}

// does an obstacle-free path exist?  Conservative: obstacles inflated by 1 (touching shapes merge)
bool RouterSession::pathExists(const Cn &c) {
    if (c.e[0].kind != 0 || c.e[1].kind != 0) return true;
    VisOracle vo;
    for (auto &sk : shapes) if (sk.second.alive) {
        RectB b = bbox(sk.second.poly);
        if (ptInPolyClosed(c.e[0].pt, sk.second.poly) || ptInPolyClosed(c.e[1].pt, sk.second.poly)) continue;
        // ... or by the shape buffer distance, when that is larger: the router keeps that clearance, so a gap narrower than twice
        // the buffer is no path for it
        double bufd = params.count(shapeBufferDistance) ? params[shapeBufferDistance] : 0;
        double gr = std::max(1.0, bufd + 0.5);
        RectB g{b.x - gr, b.y - gr, b.w + 2 * gr, b.h + 2 * gr};
        vo.polys.push_back(rectPoly(g));
    }
    return vo.solve(c.e[0].pt, c.e[1].pt, 0, false) >= 0;
}

// ------------------------------------------------------------------ C04 / C05: optimality against the reference model
void RouterSession::checkOptimality(const char *when) {
    double pen = params.count(segmentPenalty) ? params[segmentPenalty] : 10;
    double buf = params.count(shapeBufferDistance) ? params[shapeBufferDistance] : 0;
    for (auto &kv : conns) {
        Cn &c = kv.second;
        if (!c.alive || c.hyperedge || c.e[0].kind != 0 || c.e[1].kind != 0 || !c.checkpoints.empty()) continue;
        if (c.e[0].dirs != 15 || c.e[1].dirs != 15) continue;
        if (samePt(c.e[0].pt, c.e[1].pt)) continue;
        if (!ortho && armed("C04") && costOraclesApply) {
            VisOracle vo;
            bool inside = false;
            for (auto &sk : shapes) if (sk.second.alive) { vo.polys.push_back(sk.second.poly); if (ptInPolyClosed(c.e[0].pt, sk.second.poly) || ptInPolyClosed(c.e[1].pt, sk.second.poly)) inside = true; }
            if (inside || buf != 0) continue;
            std::vector<Pt> r = simplifyRoute(routePts(c.ref->displayRoute()));
            bool valid = true;
            for (size_t i = 1; i < r.size() && valid; i++) for (auto &P : vo.polys) if (segHitsPoly(r[i - 1], r[i], P, 1e-7)) { valid = false; break; }
            if (!valid) continue;                      // C03's business
            double cost = polyLen(r) + pen * std::max(0, (int)r.size() - 2);
            double taut = vo.solve(c.e[0].pt, c.e[1].pt, pen, true);
            probe("router.c04-compared");
            if (taut < 0) continue;
            bool rerouted = callbacks[kv.first] != cbSeen[kv.first];
            if (pen > 0 && !rerouted && cost > taut + 1e-6) { probe("router.stale-route-with-penalty-not-judged"); continue; }   // reroute heuristic looks at length only
            if (cost > taut + 1e-6) {
                violate("C04", pen == 0 ? "shortest" : "length+bends", pen == 0 ? "longer-than-shortest-path" : "costlier-than-taut-optimum",
                        fmt("conn %d after %s: cost %.9f (len %.9f, %d bends, penalty %g) vs reference %.9f;%s", kv.first, when, cost, polyLen(r), (int)r.size() - 2, pen, taut, describeScene().c_str()));
            } else if (cost < taut - 1e-6) {
                violate("HARNESS", "oracle-gap", "C04-route-cheaper-than-taut-oracle", fmt("conn %d: %.9f < %.9f", kv.first, cost, taut));
            } else if (pen > 0) {
                double fr = vo.solve(c.e[0].pt, c.e[1].pt, pen, false);
                if (fr >= 0 && fr < taut - 1e-6) violate("C04", "length+bends", "taut-only-search", fmt("conn %d after %s: cost %.9f = taut optimum > free optimum %.9f (penalty %g);%s", kv.first, when, cost, fr, pen, describeScene().c_str()));
            }
        }
        if (ortho && armed("C05") && costOraclesApply) {
            HananOracle ho;
            bool inside = false, allRect = true;
            for (auto &sk : shapes) if (sk.second.alive) {
                if (!sk.second.isRect) allRect = false;
                RectB b = bbox(sk.second.poly);
                ho.rects.push_back(RectB{b.x - buf, b.y - buf, b.w + 2 * buf, b.h + 2 * buf});
                RectB &g = ho.rects.back();
                for (int k = 0; k < 2; k++) if (c.e[k].pt.x >= g.x && c.e[k].pt.x <= g.x + g.w && c.e[k].pt.y >= g.y && c.e[k].pt.y <= g.y + g.h) inside = true;
            }
            if (inside || !allRect) continue;
            std::vector<Pt> r = simplifyRoute(routePts(c.ref->route()));
            bool okr = r.size() >= 2;
            double len = 0;
            for (size_t i = 1; i < r.size(); i++) {
                if (r[i].x != r[i - 1].x && r[i].y != r[i - 1].y) okr = false;
                len += std::fabs(r[i].x - r[i - 1].x) + std::fabs(r[i].y - r[i - 1].y);
                double mx = (r[i].x + r[i - 1].x) / 2, my = (r[i].y + r[i - 1].y) / 2;
                for (auto &g : ho.rects) if (mx > g.x && mx < g.x + g.w && my > g.y && my < g.y + g.h) okr = false;
            }
            if (!okr) continue;                        // validity is C03's / the axis-parallel clause's business
            double cost = len + pen * std::max(0, (int)r.size() - 2);
            double best = ho.solve(c.e[0].pt, c.e[1].pt, pen);
            probe("router.c05-compared");
            if (best < 0) continue;
            std::string csig = "costlier-than-grid-optimum";
            if (cost > best + 1e-6) {
                // does every optimum pass through a free end of another connector that may be left along one axis only?  (no
                // perpendicular scan line is generated through such an end, and the vertices either side of it are joined by
                // special-cased visibility edges only)
                HananOracle h2 = ho;
                for (auto &ov : conns) if (ov.first != kv.first && ov.second.alive) for (int k = 0; k < 2; k++) if (ov.second.e[k].kind == 0 && ov.second.e[k].dirs != 15) h2.blocked.push_back(ov.second.e[k].pt);
                if (!h2.blocked.empty()) { double b2 = h2.solve(c.e[0].pt, c.e[1].pt, pen); if ((b2 < 0 || b2 > best + 1e-6) && (b2 < 0 || cost <= b2 + 1e-6)) csig += ":every-optimum-passes-through-another-connectors-direction-restricted-end"; }
                if (csig.find(':') == std::string::npos) {
                    // (a connector deleted since, or its end moved away, leaves the route computed beside it in place: nothing
                    // invalidates it -- so every position that ever carried such an end in this session counts)
                    bool onLine = false;
                    for (auto &bq : everRestrictedEnds) if (!((bq.x == c.e[0].pt.x && bq.y == c.e[0].pt.y) || (bq.x == c.e[1].pt.x && bq.y == c.e[1].pt.y))) for (int k = 0; k < 2; k++) if (bq.x == c.e[k].pt.x || bq.y == c.e[k].pt.y) onLine = true;
                    if (onLine) csig += ":another-connectors-direction-restricted-end-on-an-end-points-scan-line";
                }
            }
            if (cost > best + 1e-6) violate("C05", "min-cost", csig, fmt("conn %d after %s: cost %.6f (len %.6f, %d bends, penalty %g) vs grid optimum %.6f;%s", kv.first, when, cost, len, (int)r.size() - 2, pen, best, describeScene().c_str()));
            else if (cost < best - 1e-6) violate("HARNESS", "oracle-gap", "C05-route-cheaper-than-grid-oracle", fmt("conn %d: %.9f < %.9f;%s", kv.first, cost, best, describeScene().c_str()));
        }
    }
}

// ------------------------------------------------------------------ C06: fresh router on the model scene
void RouterSession::checkAgainstFresh(const char *when) {
    if (!costOraclesApply) return;
    std::map<int, double> freshCost;
    std::string ex = guardedCall(this, [&] {
        Router *f = new Router(ortho ? OrthogonalRouting : PolyLineRouting);
        applyConfig(f, false);
        std::map<int, ShapeRef *> fs;
        for (auto &sk : shapes) if (sk.second.alive) { Polygon pg = toAvoid(sk.second.poly); fs[sk.first] = new ShapeRef(f, pg); }
        std::map<int, ConnRef *> fc;
        for (auto &kv : conns) {
            Cn &c = kv.second;
            if (!c.alive || c.hyperedge || c.e[0].kind != 0 || c.e[1].kind != 0) continue;
            fc[kv.first] = new ConnRef(f, ConnEnd(Point(c.e[0].pt.x, c.e[0].pt.y), (ConnDirFlags)c.e[0].dirs), ConnEnd(Point(c.e[1].pt.x, c.e[1].pt.y), (ConnDirFlags)c.e[1].dirs));
            if (!c.checkpoints.empty()) { std::vector<Checkpoint> cps = c.mkCheckpoints(); fc[kv.first]->setRoutingCheckpoints(cps); }
        }
        f->processTransaction();
        for (auto &kv : fc) freshCost[kv.first] = routeCost(kv.second);
        delete f;
    });
    if (!ex.empty()) { probe("router.fresh-threw"); return; }
    for (auto &kv : freshCost) {
        Cn &c = conns[kv.first];
        double inc = routeCost(c.ref), fr = kv.second;
        probe("router.c06-compared");
        if (inc > fr + 1e-6 && !tunSelective) { probe("router.costlier-with-SelectiveReroute-off"); continue; }   // the client switched the reroute heuristic off
        if (std::fabs(inc - fr) > 1e-6) {
            // classifier: is the incremental route through a shape (then it is a C03-type defect with its own signature)?
            std::string sig = inc > fr ? "incremental-costlier-than-fresh" : "incremental-cheaper-than-fresh";
            if (c.detachedByDelete) sig += ":end-detached-by-shape-deletion";
            if (inc < fr) {
                std::vector<Pt> r = routePts(c.ref->displayRoute());
                for (auto &sk : shapes) if (sk.second.alive) for (size_t i = 1; i < r.size(); i++) if (segHitsPoly(r[i - 1], r[i], sk.second.poly, 1e-7)) { sig = "incremental-route-through-shape" + throughShapeClass(c, r[i - 1], r[i], sk.second.poly); }
            }
            // classifier (KF-C06-b): a shape has been dragged over one of this connector's end points (cover history)
            { bool covered = false; for (auto &sk : shapes) if (sk.second.alive) for (int e = 0; e < 2; e++) if (c.e[e].kind == 0 && ptInPolyClosed(c.e[e].pt, sk.second.poly)) covered = true;
              if (covered) sig += ":connector-end-point-covered-by-a-shape"; }
            violate("C06", "cost-equals-fresh", sig, fmt("conn %d after %s: incremental %.9f fresh %.9f (%s, immediate=%d);%s", kv.first, when, inc, fr, ortho ? "ortho" : "poly", (int)!useTransactions, describeScene().c_str()));
            return;
        }
    }
}

// ------------------------------------------------------------------ after a completed transaction
void RouterSession::afterTransaction(const char *when, bool processed) {
    HarnessScope hs;
    if (dead) return;
    // observable result for C20 and the event log
    std::vector<double> out;
    for (auto &kv : conns) if (kv.second.alive) for (auto &p : kv.second.ref->displayRoute().ps) { out.push_back(p.x); out.push_back(p.y); }
    record(out, true);
    if (spec["cfg"].has("twin")) {
        std::map<int, std::vector<Pt>> rr; std::map<int, double> cc;
        for (auto &kv : conns) if (kv.second.alive) {
            rr[kv.first] = routePts(kv.second.ref->displayRoute());
            std::vector<Pt> sr = simplifyRoute(rr[kv.first]);
            double p = params.count(Avoid::segmentPenalty) ? params[Avoid::segmentPenalty] : 10;
            cc[kv.first] = ortho ? routeCost(kv.second.ref) : polyLen(sr) + p * std::max(0, (int)sr.size() - 2);
        }
        txnRoutes.push_back(rr); txnCosts.push_back(cc);
    }
    if (dirty) { probe("router.oracles-skipped-after-cancel"); return; }
    if (processed) probe(ortho ? "router.transaction-ortho" : "router.transaction-poly");
    if (armed("C03") || armed("C05") || armed("C06")) checkValidity(when);
    if (armed("C04") || armed("C05")) checkOptimality(when);
    if (armed("C06")) checkAgainstFresh(when);
    extraChecks(when);
    cbSeen = callbacks;
}

std::vector<std::vector<Pt>> RouterSession::snapshotRoutes() {
    std::vector<std::vector<Pt>> v;
    for (auto &kv : conns) if (kv.second.alive) { v.push_back(routePts(kv.second.ref->displayRoute())); v.push_back(routePts(kv.second.ref->route())); }
    return v;
}

// faults are attached to the op whose (explicit or, in immediate mode, implicit) transaction they hit
void RouterSession::armFaults(const Json &op) {
    checks = 0; cancelAt = 0; cancelRequested = false; deadlineMs = 0;
    for (auto &f : op["faults"].a) {
        if (f.has("cancel_at")) cancelAt = (int)f["cancel_at"].i();
        if (f.has("deadline_ms")) deadlineMs = f["deadline_ms"].i();
        if (f.has("clock_unavailable")) { g_clock_unavailable = (int)f["clock_unavailable"].i(); w->fault("clock_unavailable"); }
    }
}
void RouterSession::disarmFaults(bool transactionRan) {
    g_clock_unavailable = 0;
    bool aborted = router && router->m_abort_transaction;
    if (cancelRequested) {
        // abort is only honoured in the crossing stage; a request elsewhere lets the transaction complete
        bool honoured = aborted && (router->routingParameter(Avoid::crossingPenalty) > 0 || router->routingParameter(Avoid::fixedSharedPathPenalty) > 0);
        if (honoured) { dirty = true; w->fault("cancel_honoured"); probe("router.transaction-cancelled"); }
        else probe("router.cancel-ignored-transaction-completed");
    } else if (dirty && transactionRan) { dirty = false; probe("router.recovered-after-cancel"); w->fault("recovery_completed"); }
    cancelAt = 0; deadlineMs = 0; cancelRequested = false;
}

bool RouterSession::process(const Json &op, const char *when) {
    armFaults(op);
    bool expectNoop = pendingEdits == 0 && !router->m_settings_changes && router->m_hyperedge_rerouter.count() == 0;
    std::vector<std::vector<Pt>> before;
    std::vector<double> costBefore;
    if ((expectNoop || zeroMoveOnly) && armed("C06")) { before = snapshotRoutes(); for (auto &kv : conns) if (kv.second.alive) costBefore.push_back(routeCost(kv.second.ref)); }
    bool ret = false;
    std::string ex = guardedCall(this, [&] { ret = router->processTransaction(); });
    if (!ex.empty()) { g_clock_unavailable = 0; onLibraryException(ex, when); return false; }
    disarmFaults(ret);
    if (armed("C06") && !dirty) {
        if (expectNoop) {
            probe("router.noop-transaction");
            if (ret) violate("C06", "noop", "empty-transaction-returned-true", when);
            if (before != snapshotRoutes()) violate("C06", "noop", "empty-transaction-changed-a-route", when);
        } else if (zeroMoveOnly && !costBefore.empty() && costOraclesApply && tunSelective) {
            // (with the client's SelectiveReroute off, stale routes are expected; a zero move re-adds the shape and may improve them)
            probe("router.zero-move-transaction");
            size_t k = 0;
            for (auto &kv : conns) if (kv.second.alive) { if (k < costBefore.size() && std::fabs(routeCost(kv.second.ref) - costBefore[k]) > 1e-6) { 
                    // classifier: the re-route triggered by the zero move runs through a shape (a C03-type defect seen through this clause)
                    std::string zs = "zero-move-changed-a-route-cost";
                    std::vector<Pt> r = routePts(kv.second.ref->displayRoute());
                    bool cls = false;
                    for (auto &sk : shapes) if (sk.second.alive && !cls) for (size_t i = 1; i < r.size() && !cls; i++) if (segHitsPoly(r[i - 1], r[i], sk.second.poly, 1e-7)) { curRoute = r; zs += ":route-through-shape" + throughShapeClass(kv.second, r[i - 1], r[i], sk.second.poly); curRoute.clear(); cls = true; }
                    violate("C06", "noop", zs, fmt("conn %d: %.9f -> %.9f", kv.first, costBefore[k], routeCost(kv.second.ref))); break; } k++; }
        }
    }
    pendingEdits = 0; zeroMoveOnly = false;
    (void)ret;
    return true;
}

void RouterSession::onLibraryException(const std::string &ex, const char *when) {
    HarnessScope hs;
    w->fault("exception");
    probe(ex.c_str());
    violate("C15", "assert", ex, fmt("during %s (%s%s)", when, ortho ? "ortho" : "poly", useTransactions ? "" : ", immediate mode"));
    // the router is in an unknown state after an exception from the middle of a transaction:
    // the session stops using it (objects are deliberately not destroyed; leaks are attributed to the assertion)
    dead = true;
}

void RouterSession::edit() { pendingEdits++; }

// ------------------------------------------------------------------ the session
void RouterSession::run() {
    const Json &cfg = spec["cfg"];
    ortho = cfg.str("mode", "poly") == "ortho";
    useTransactions = cfg.boolean("transactions", true);
    costOraclesApply = cfg.boolean("cost_oracles", true);
    armedPinsGeometry = cfg.boolean("pins_geometry", false);
    for (auto &kv : cfg["params"].o) params[(int)atoi(kv.first.c_str())] = kv.second.num();
    for (auto &kv : cfg["options"].o) options[(int)atoi(kv.first.c_str())] = kv.second.boolean();
    tunSelective = cfg.boolean("SelectiveReroute", true); tunInvis = cfg.boolean("InvisibilityGrph", true); tunLees = cfg.boolean("UseLeesAlgorithm", true);
    std::string ex = guardedCall(this, [&] {
        router = new SimRouter(ortho ? OrthogonalRouting : PolyLineRouting);
        router->s = this;
        applyConfig(router, true);
        if (!useTransactions) router->setTransactionUse(false);
    });
    if (!ex.empty()) { onLibraryException(ex, "create"); }
    const Json &ops = spec["ops"];
    for (size_t oi = 0; oi < ops.size() && !dead; oi++) {
        curOp = (int)oi;
        const Json &op = ops[oi];
        std::string o = op.str("op", "");
        w->log.ev(o.c_str(), id, (long)oi);
        bool edited = false;
        std::string e2;
        if (!useTransactions && o != "process" && o != "recover") armFaults(op);
        // The generators keep the boxes of the shapes interior-disjoint (the domain of the statements).  A plan can still ask for an
        // overlap when an earlier edit of it was refused by one of the argument guards below, or was cut out by the shrinker: such an
        // edit is not carried out either, so that every plan that can be written down stays inside the domain.
        auto wouldOverlap = [&](int self, const Poly &np) {
            RectB nb = bbox(np);
            for (auto &sk : shapes) if (sk.second.alive && sk.first != self) {
                RectB ob = bbox(sk.second.poly);
                double ox = std::min(nb.x + nb.w, ob.x + ob.w) - std::max(nb.x, ob.x), oy = std::min(nb.y + nb.h, ob.y + ob.h) - std::max(nb.y, ob.y);
                if (ox > 1e-9 && oy > 1e-9) { probe("router.edit-refused-shapes-would-overlap"); return true; }
            }
            return false;
        };
        if (o == "addShape") {
            int k = (int)op["id"].i();
            if (shapes.count(k) && shapes[k].alive) continue;
            Sh sh; sh.poly = polyFromJson(op["poly"]); sh.alive = true; sh.isRect = op.boolean("rect", false);
            if (sh.poly.size() < 3) continue;
            if (wouldOverlap(k, sh.poly)) continue;
            e2 = guardedCall(this, [&] { Polygon pg = toAvoid(sh.poly); sh.ref = new ShapeRef(router, pg); addPins(sh, op); });
            shapes[k] = sh; edited = true; addedThisTxn.insert(k);
        } else if (o == "moveShape") {
            int k = (int)op["id"].i();
            auto it = shapes.find(k);
            if (it == shapes.end() || !it->second.alive) continue;
            double dx = op.num("dx", 0), dy = op.num("dy", 0);
            { Poly moved = it->second.poly; for (auto &q : moved) { q.x += dx; q.y += dy; } if ((dx != 0 || dy != 0) && wouldOverlap(k, moved)) continue; }
            for (auto &q : it->second.poly) { q.x += dx; q.y += dy; }
            if (dx == 0 && dy == 0 && pendingEdits == 0) zeroMoveOnly = true; else if (dx != 0 || dy != 0) zeroMoveOnly = false;
            e2 = guardedCall(this, [&] { router->moveShape(it->second.ref, dx, dy); });
            edited = true; probe("router.moveShape");
        } else if (o == "reshape") {
            int k = (int)op["id"].i();
            auto it = shapes.find(k);
            if (it == shapes.end() || !it->second.alive) continue;
            Poly np = polyFromJson(op["poly"]);
            if (np.size() < 3) continue;
            { // an absolute pin offset (possibly inverted by an earlier transformPins) must stay inside the new box: valid arguments only
                RectB nb = bbox(np); bool outside = false;
                for (auto &pm : it->second.pins) if (!pm.prop && ((pm.xo > 0 && pm.xo > nb.w - 1) || (pm.yo > 0 && pm.yo > nb.h - 1))) outside = true;
                if (outside) continue;
                if (!reshapeKeepsPinsApart(it->second, np)) continue;
                if (wouldOverlap(k, np)) continue;
            }
            Poly old = it->second.poly;
            it->second.poly = np; it->second.isRect = op.boolean("rect", false);
            onReshape(it->second, old, op);
            e2 = guardedCall(this, [&] { Polygon pg = toAvoid(np); router->moveShape(it->second.ref, pg); });
            edited = true; zeroMoveOnly = false; probe("router.reshape"); reshapedThisTxn.insert(k);
        } else if (o == "deleteShape") {
            int k = (int)op["id"].i();
            auto it = shapes.find(k);
            if (it == shapes.end() || !it->second.alive) continue;
            if (addedThisTxn.count(k) && useTransactions) continue;     // documented precondition: no add+delete in one transaction
            it->second.alive = false;
            for (auto &kv : conns) for (int e = 0; e < 2; e++) if (kv.second.alive && kv.second.e[e].kind == 1 && kv.second.e[e].shape == k) { kv.second.detachedByDelete = true; kv.second.e[e].kind = 3; }
            e2 = guardedCall(this, [&] { router->deleteShape(it->second.ref); });
            it->second.ref = nullptr;
            edited = true; zeroMoveOnly = false; probe("router.deleteShape");
        } else if (o == "addConn") {
            int k = (int)op["id"].i();
            if (conns.count(k) && conns[k].alive) continue;
            Cn c; c.e[0] = endFromJson(op["src"]); c.e[1] = endFromJson(op["dst"]); c.alive = true;
            if (!endValid(c.e[0]) || !endValid(c.e[1])) continue;
            c.setCheckpointsFrom(op["checkpoints"]);
            int ctor = (int)op.i("ctor", 0);
            e2 = guardedCall(this, [&] {
                if (ctor == 0) c.ref = new ConnRef(router, mkEnd(c.e[0]), mkEnd(c.e[1]));
                else { c.ref = new ConnRef(router); c.ref->setEndpoints(mkEnd(c.e[0]), mkEnd(c.e[1])); }
                if (!c.checkpoints.empty()) { std::vector<Checkpoint> cps = c.mkCheckpoints(); c.ref->setRoutingCheckpoints(cps); }
                if (op.boolean("callback", true)) { CbCtx *cc = new CbCtx{this, k}; cbctx.push_back(cc); c.ref->setCallback(connCallback, cc); }
            });
            conns[k] = c; edited = true; zeroMoveOnly = false;
        } else if (o == "moveEnd") {
            int k = (int)op["id"].i();
            auto it = conns.find(k);
            if (it == conns.end() || !it->second.alive || it->second.hyperedge) continue;
            int which = (int)op.i("which", 0) & 1;
            End ne = endFromJson(op["end"]);
            if (!endValid(ne)) continue;
            it->second.e[which] = ne;
            if (it->second.e[0].kind != 3 && it->second.e[1].kind != 3) it->second.detachedByDelete = false;
            e2 = guardedCall(this, [&] { if (which == 0) it->second.ref->setSourceEndpoint(mkEnd(ne)); else it->second.ref->setDestEndpoint(mkEnd(ne)); });
            edited = true; zeroMoveOnly = false; probe("router.moveEnd");
        } else if (o == "deleteConn") {
            int k = (int)op["id"].i();
            auto it = conns.find(k);
            if (it == conns.end() || !it->second.alive || it->second.hyperedge) continue;
            it->second.alive = false;
            e2 = guardedCall(this, [&] { router->deleteConnector(it->second.ref); });
            it->second.ref = nullptr;
            edited = true; zeroMoveOnly = false; probe("router.deleteConn");
        } else if (o == "setParam") {
            int k = (int)op["param"].i(); double v = op.num("value", 0);
            params[k] = v;
            e2 = guardedCall(this, [&] { router->setRoutingParameter((RoutingParameter)k, v); });
            zeroMoveOnly = false;
        } else if (o == "setOption") {
            int k = (int)op["option"].i(); bool v = op.boolean("value", false);
            options[k] = v;
            e2 = guardedCall(this, [&] { router->setRoutingOption((RoutingOption)k, v); });
            zeroMoveOnly = false;
        } else if (o == "process" || o == "recover") {
            if (o == "recover") {
                if (!dirty) continue;
                // the client forces a complete transaction after a cancelled one
                std::string e4;
                for (auto &sk : shapes) if (sk.second.alive) { armFaults(Json()); e4 = guardedCall(this, [&] { router->moveShape(sk.second.ref, 0, 0); }); pendingEdits++; break; }
                if (!e4.empty()) { onLibraryException(e4, "recover"); break; }
                if (!useTransactions) { disarmFaults(pendingEdits > 0); pendingEdits = 0; afterTransaction("recover", true); yield("op"); continue; }
            }
            if (process(op, o.c_str())) { addedThisTxn.clear(); addedJunctionsThisTxn.clear(); reshapedThisTxn.clear(); afterTransaction(o.c_str(), true); }
            yield("op");
            continue;
        } else if (o == "output") {
            for (auto &f : op["faults"].a) if (f.has("fopen")) { SimFS::fail_next_opens = (int)f.i("count", 1); SimFS::fail_errno = f.str("fopen", "ENOSPC") == "EACCES" ? 13 : 28; }
            if (op.has("short_write_every")) SimFS::short_write_every = op["short_write_every"].i();
            std::string what = op.str("what", "svg");
            e2 = guardedCall(this, [&] {
                if (what == "svg") router->outputInstanceToSVG("simfs-instance");
                else if (what == "diagram") router->outputDiagram("simfs-diagram");
                else if (what == "diagramsvg") router->outputDiagramSVG("simfs-diagram");
                else router->outputDiagramText("simfs-text");
            });
            SimFS::fail_next_opens = 0; SimFS::short_write_every = 0;
            probe("router.output");
        } else if (!extraOp(op, o, e2, edited)) {
            continue;
        }
        if (!e2.empty()) { onLibraryException(e2, o.c_str()); break; }
        if (edited) {
            if (o != "moveShape") zeroMoveOnly = false;
            edit();
            // in immediate mode only shape edits are certain to run a whole implicit transaction (recovery after a cancel counts from those)
            if (!useTransactions) { disarmFaults(o == "moveShape" || o == "reshape" || o == "addShape" || o == "deleteShape"); pendingEdits = 0; addedThisTxn.clear(); addedJunctionsThisTxn.clear(); reshapedThisTxn.clear(); afterTransaction(o.c_str(), true); }
        }
        yield("op");
    }
    curOp = -1;
    // teardown: possibly with queued actions (C15 watches)
    if (!dead) {
        if (pendingEdits) probe("router.destroyed-with-queued-actions");
        std::string e3 = guardedCall(this, [&] { delete router; });
        if (!e3.empty()) { probe(e3.c_str()); violate("C15", "assert", e3, "delete router"); }
    }
    router = nullptr;
}

static Session *mkRouter() { return new RouterSession(); }
static SessionRegistrar rr1("router", mkRouter);
