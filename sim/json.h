// Minimal JSON value: enough for plans, results and evidence. Doubles are
// written with %.17g so that plans replay bit-exactly.
#pragma once
#include <string>
#include <vector>
#include <map>
#include <cstdio>
#include <cstdlib>
#include <cstring>
#include <cmath>
#include <cstdint>
#include <stdexcept>

struct Json {
    enum T { NUL, BOOL, NUM, STR, ARR, OBJ } t = NUL;
    bool b = false;
    double n = 0;
    std::string s;
    std::vector<Json> a;
    std::vector<std::pair<std::string, Json>> o;   // insertion ordered

    Json() {}
    Json(bool v) : t(BOOL), b(v) {}
    Json(double v) : t(NUM), n(v) {}
    Json(int v) : t(NUM), n(v) {}
    Json(long v) : t(NUM), n((double)v) {}
    Json(unsigned v) : t(NUM), n(v) {}
    Json(unsigned long v) : t(NUM), n((double)v) {}
    Json(long long v) : t(NUM), n((double)v) {}
    Json(unsigned long long v) : t(NUM), n((double)v) {}
    Json(const char *v) : t(STR), s(v) {}
    Json(const std::string &v) : t(STR), s(v) {}
    static Json arr() { Json j; j.t = ARR; return j; }
    static Json obj() { Json j; j.t = OBJ; return j; }

    bool isNull() const { return t == NUL; }
    bool has(const std::string &k) const {
        for (auto &kv : o) if (kv.first == k) return true;
        return false;
    }
    const Json &operator[](const std::string &k) const {
        static Json nul;
        for (auto &kv : o) if (kv.first == k) return kv.second;
        return nul;
    }
    Json &set(const std::string &k, const Json &v) {
        if (t != OBJ) { t = OBJ; }
        for (auto &kv : o) if (kv.first == k) { kv.second = v; return kv.second; }
        o.push_back({k, v});
        return o.back().second;
    }
    Json &ref(const std::string &k) {
        if (t != OBJ) { t = OBJ; }
        for (auto &kv : o) if (kv.first == k) return kv.second;
        o.push_back({k, Json()});
        return o.back().second;
    }
    const Json &operator[](size_t i) const { static Json nul; return i < a.size() ? a[i] : nul; }
    void push(const Json &v) { if (t != ARR) t = ARR; a.push_back(v); }
    size_t size() const { return t == ARR ? a.size() : t == OBJ ? o.size() : 0; }

    double num(double d = 0) const { return t == NUM ? n : t == BOOL ? (b ? 1 : 0) : d; }
    long i(long d = 0) const { return t == NUM ? (long)n : t == BOOL ? (b ? 1 : 0) : d; }
    bool boolean(bool d = false) const { return t == BOOL ? b : t == NUM ? n != 0 : d; }
    const std::string &str() const { return s; }
    std::string str(const std::string &d) const { return t == STR ? s : d; }
    double num(const std::string &k, double d) const { return (*this)[k].num(d); }
    long i(const std::string &k, long d) const { return (*this)[k].i(d); }
    bool boolean(const std::string &k, bool d) const { return (*this)[k].boolean(d); }
    std::string str(const std::string &k, const std::string &d) const { return (*this)[k].str(d); }

    static void esc(std::string &out, const std::string &v) {
        out += '"';
        for (unsigned char c : v) {
            if (c == '"') out += "\\\"";
            else if (c == '\\') out += "\\\\";
            else if (c == '\n') out += "\\n";
            else if (c == '\t') out += "\\t";
            else if (c == '\r') out += "\\r";
            else if (c < 0x20) { char b[8]; snprintf(b, 8, "\\u%04x", c); out += b; }
            else out += (char)c;
        }
        out += '"';
    }
    void dump(std::string &out) const {
        switch (t) {
        case NUL: out += "null"; break;
        case BOOL: out += b ? "true" : "false"; break;
        case NUM: {
            char buf[40];
            if (!std::isfinite(n)) { out += std::isnan(n) ? "\"nan\"" : (n > 0 ? "\"inf\"" : "\"-inf\""); break; }
            if (n == std::floor(n) && std::fabs(n) < 9e15) snprintf(buf, 40, "%.0f", n);
            else snprintf(buf, 40, "%.17g", n);
            out += buf;
            break;
        }
        case STR: esc(out, s); break;
        case ARR:
            out += '[';
            for (size_t k = 0; k < a.size(); k++) { if (k) out += ','; a[k].dump(out); }
            out += ']';
            break;
        case OBJ:
            out += '{';
            for (size_t k = 0; k < o.size(); k++) {
                if (k) out += ',';
                esc(out, o[k].first); out += ':'; o[k].second.dump(out);
            }
            out += '}';
            break;
        }
    }
    std::string dump() const { std::string r; dump(r); return r; }

    // ---- parser
    struct P {
        const char *p, *e;
        void ws() { while (p < e && (*p == ' ' || *p == '\n' || *p == '\t' || *p == '\r')) p++; }
        [[noreturn]] void fail(const char *m) { throw std::runtime_error(std::string("json: ") + m); }
        Json val() {
            ws();
            if (p >= e) fail("eof");
            char c = *p;
            if (c == '{') {
                p++; Json j = Json::obj(); ws();
                if (p < e && *p == '}') { p++; return j; }
                for (;;) {
                    ws(); if (p >= e || *p != '"') fail("key");
                    std::string k = strv(); ws();
                    if (p >= e || *p != ':') fail("colon");
                    p++;
                    Json v = val();
                    j.o.push_back({k, v});
                    ws();
                    if (p < e && *p == ',') { p++; continue; }
                    if (p < e && *p == '}') { p++; break; }
                    fail("obj");
                }
                return j;
            }
            if (c == '[') {
                p++; Json j = Json::arr(); ws();
                if (p < e && *p == ']') { p++; return j; }
                for (;;) {
                    j.a.push_back(val()); ws();
                    if (p < e && *p == ',') { p++; continue; }
                    if (p < e && *p == ']') { p++; break; }
                    fail("arr");
                }
                return j;
            }
            if (c == '"') {
                std::string v = strv();
                if (v == "nan") return Json(std::nan(""));
                if (v == "inf") return Json(HUGE_VAL);
                if (v == "-inf") return Json(-HUGE_VAL);
                return Json(v);
            }
            if (!strncmp(p, "true", 4)) { p += 4; return Json(true); }
            if (!strncmp(p, "false", 5)) { p += 5; return Json(false); }
            if (!strncmp(p, "null", 4)) { p += 4; return Json(); }
            char *end; double d = strtod(p, &end);
            if (end == p) fail("num");
            p = end; return Json(d);
        }
        std::string strv() {
            std::string r; p++;
            while (p < e && *p != '"') {
                if (*p == '\\' && p + 1 < e) {
                    p++;
                    switch (*p) {
                    case 'n': r += '\n'; break; case 't': r += '\t'; break; case 'r': r += '\r'; break;
                    case 'u': { unsigned v = 0; sscanf(p + 1, "%4x", &v); r += (char)v; p += 4; break; }
                    default: r += *p;
                    }
                    p++;
                } else r += *p++;
            }
            if (p >= e) fail("str");
            p++;
            return r;
        }
    };
    static Json parse(const std::string &txt) { P p{txt.data(), txt.data() + txt.size()}; return p.val(); }
};
