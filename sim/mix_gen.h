#pragma once
#include "router_gen.h"
typedef Json (*MixSessionGen)(Rng &, const std::string &tier, bool forC20);
std::vector<MixSessionGen> &mixSessionGens();          // layout / dialect engines register here
struct MixGenRegistrar { MixGenRegistrar(MixSessionGen g) { mixSessionGens().push_back(g); } };
extern void (*extendRouterCfgForMix)(Rng &, RouterGenCfg &, bool);   // pins / junctions / hyperedges hook
Json genAnyRouterSession(Rng &r, const std::string &tier, bool forC20);
