// adaptasim core: seeded RNG, event log, world (scheduler + clock + fault
// bookkeeping), session interface.  See DESIGN.md section 2.
#pragma once
#include "json.h"
#include <cstdint>
#include <string>
#include <vector>
#include <map>
#include <set>
#include <mutex>
#include <condition_variable>
#include <thread>
#include <functional>
#include <cstring>

// ------------------------------------------------------------------ RNG
struct Rng {
    uint64_t s;
    explicit Rng(uint64_t seed = 1) : s(seed) {}
    uint64_t next() {
        uint64_t z = (s += 0x9E3779B97F4A7C15ULL);
        z = (z ^ (z >> 30)) * 0xBF58476D1CE4E5B9ULL;
        z = (z ^ (z >> 27)) * 0x94D049BB133111EBULL;
        return z ^ (z >> 31);
    }
    uint64_t below(uint64_t n) { return n ? next() % n : 0; }
    int range(int lo, int hi) { return lo + (int)below((uint64_t)(hi - lo + 1)); }   // inclusive
    double unit() { return (next() >> 11) * (1.0 / 9007199254740992.0); }
    bool chance(double p) { return unit() < p; }
    template <class T> const T &pick(const std::vector<T> &v) { return v[below(v.size())]; }
    static uint64_t mix(uint64_t a, const char *tag) {
        uint64_t h = 1469598103934665603ULL ^ a;
        for (const char *p = tag; *p; p++) h = (h ^ (unsigned char)*p) * 1099511628211ULL;
        Rng r(h); r.next(); return r.next();
    }
    Rng fork(const char *tag) { return Rng(mix(next(), tag)); }
};

// ------------------------------------------------------------------ allocator seam
extern thread_local int tl_libscope;            // >0: allocations are "library" allocations
struct LibScope { LibScope() { tl_libscope++; } ~LibScope() { tl_libscope--; } };
struct HarnessScope { int saved; HarnessScope() : saved(tl_libscope) { tl_libscope = 0; } ~HarnessScope() { tl_libscope = saved; } };
void simalloc_configure(uint64_t seed, const std::string &placement, const std::string &fill);
struct SimAllocStats { uint64_t allocs, frees, reuse_out_of_order, bytes_live, redzone_errors; };
SimAllocStats simalloc_stats();
bool simalloc_active();

// ------------------------------------------------------------------ clock / file seams
extern long g_simclock_us;        // simulated CPU time, microseconds
extern long g_clock_reads;
extern int g_clock_unavailable;   // next N reads return (clock_t)-1
struct SimFS {
    static int fail_next_opens;           // number of following fopen calls that fail
    static int fail_errno;
    static long opens, failed, bytes;
    static long short_write_every;        // >0: every k-th write callback is short
};

// ------------------------------------------------------------------ event log
struct EvLog {
    uint64_t h = 1469598103934665603ULL;
    long n = 0;
    bool trace = false;
    std::string text;         // only when trace
    void mixv(uint64_t x) { h = (h ^ x) * 1099511628211ULL; h ^= h >> 29; n++; }
    void d(double v) { uint64_t a; memcpy(&a, &v, 8); mixv(a); }
    void str(const char *s) { for (; *s; s++) mixv((unsigned char)*s); }
    void ev(const char *what, long a = 0, long b = 0);
};

// ------------------------------------------------------------------ violations
struct Violation {
    std::string prop, clause, sig, detail;
    int session = -1, op = -1;
    Json toJson() const {
        Json j = Json::obj();
        j.set("prop", prop); j.set("clause", clause); j.set("sig", sig); j.set("detail", detail);
        j.set("session", session); j.set("op", op);
        return j;
    }
};

struct World;
// ------------------------------------------------------------------ session
struct Session {
    World *w = nullptr;
    int id = 0;
    Json spec;                        // {"kind":..., "cfg":{...}, "ops":[...]}
    int curOp = -1;
    std::vector<std::vector<double>> obs;   // per op: observable result (for C20)
    std::vector<int> obsExact;              // per op: 1 = bit exact, 0 = 1e-9
    virtual ~Session() {}
    virtual void run() = 0;
    // helpers
    void violate(const char *prop, const std::string &clause, const std::string &sig, const std::string &detail);
    bool armed(const char *prop) const;
    void probe(const char *name, long k = 1);
    void yield(const char *what);
    void record(const std::vector<double> &v, bool exact);
};
typedef Session *(*SessionFactory)();
void registerSessionKind(const char *kind, SessionFactory f);
struct SessionRegistrar { SessionRegistrar(const char *k, SessionFactory f) { registerSessionKind(k, f); } };

// ------------------------------------------------------------------ world
struct World {
    Json plan;
    std::vector<Session *> sessions;
    std::set<std::string> armedProps;
    EvLog log;
    std::vector<Violation> violations;
    std::map<std::string, long> probes;
    std::map<std::string, long> faults;       // faults that actually fired
    // scheduler
    std::mutex mu;
    std::condition_variable cv;
    int current = -1;
    std::vector<int> state;                   // 0 runnable, 1 done
    std::vector<long> schedule; size_t schedPos = 0;
    std::vector<long> clockInc; size_t clockPos = 0;
    long yields = 0, switches = 0, cbSwitches = 0;
    long maxYields = 4000;
    std::vector<std::function<void(World &, int)>> yieldInvariants;

    void load(const Json &plan);
    void runAll();
    void yieldFrom(int me, const char *what, bool insideCallback);
    void fault(const std::string &kind, long k = 1) { faults[kind] += k; }
    void probe(const std::string &name, long k = 1) { probes[name] += k; }
    bool armed(const std::string &p) const { return armedProps.count(p) > 0; }
    void violate(const Violation &v);
    Json result() const;
private:
    void pickNext(std::unique_lock<std::mutex> &lk, int me);
};

typedef void (*YieldInvariant)(World &, int);
void registerYieldInvariant(YieldInvariant f);
struct YieldInvariantRegistrar { YieldInvariantRegistrar(YieldInvariant f) { registerYieldInvariant(f); } };

typedef void (*EndInvariant)(World &);
void registerEndInvariant(EndInvariant f);
struct EndInvariantRegistrar { EndInvariantRegistrar(EndInvariant f) { registerEndInvariant(f); } };

// Plan generation (gen.cpp + engines): prop decides engine, config and armed oracles
Json genPlan(const std::string &prop, uint64_t seed, const std::string &tier);
typedef Json (*PlanGenerator)(const std::string &prop, uint64_t seed, const std::string &tier);
void registerGenerator(const char *prop, PlanGenerator g);
struct GenRegistrar { GenRegistrar(const char *p, PlanGenerator g) { registerGenerator(p, g); } };

// common plan scaffolding: alloc / schedule / clock streams derived from the seed
Json planSkeleton(const std::string &prop, const std::string &engine, uint64_t seed, Rng &rng, int nSchedule = 64);

std::string fmt(const char *f, ...) __attribute__((format(printf, 1, 2)));
