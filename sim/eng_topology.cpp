// Topology-preserving layout sessions (C13): libavoid computes the initial
// tight routes, ConstrainedFDLayout + ColaTopologyAddon moves the nodes, and
// the invariant is evaluated inside every iteration while a simulated user
// drags (locks) and resizes nodes and may stop the layout at any iteration.
#include "core.h"
#include "sigs.h"
#include "geom.h"
#include "mix_gen.h"
#include "libavoid/libavoid.h"
#include "libcola/cola.h"
#include "libtopology/cola_topology_addon.h"
#include "libtopology/topology_graph.h"
#include "libtopology/topology_constraints.h"
#include "libvpsc/assertions.h"
#include <array>
#include <map>
#include <set>
#include <algorithm>
#include <cmath>
#include <tuple>

#ifdef ADAPTAGRAMS_VERIF
namespace topology { extern int verif_topology_phase; extern int verif_topology_in_resize; }
#endif

using namespace cola;
struct TopoSession;
struct TopoConv : TestConvergence {
    TopoSession *s;
    TopoConv(TopoSession *s, unsigned maxit) : TestConvergence(1e-3, maxit), s(s) {}
    bool operator()(const double new_stress, std::valarray<double> &X, std::valarray<double> &Y) override;
};
struct TopoPre : PreIteration {
    TopoSession *s; Locks lk; Resizes rz;
    TopoPre(TopoSession *s) : PreIteration(lk, rz), s(s) {}
    bool operator()() override;
};

struct TopoSession : Session {
    vpsc::Rectangles rs;
    std::vector<Edge> es;
    std::vector<topology::Node *> tn;
    std::vector<topology::Edge *> routes;
    std::vector<topology::Node *> resNodes; std::vector<topology::Edge *> resRoutes;
    std::map<std::tuple<unsigned, unsigned, int>, int> prevPar;
    std::map<std::pair<unsigned, unsigned>, std::array<double, 6>> prevGeo;
    std::map<unsigned, std::string> prevPath;
    std::vector<topology::Node *> *curNodes = nullptr;
    std::vector<topology::Edge *> *curRoutes = nullptr;
    ConstrainedFDLayout *alg = nullptr;
    topology::ColaTopologyAddon *topo = nullptr;
    TopoConv *conv = nullptr; TopoPre *pre = nullptr;
    int convCalls = 0, preCalls = 0, stopAtIter = 0;
    std::vector<Json> events;
    bool dead = false, resized = false;
    unsigned maxIter = 100;

    static bool segHitsInterior(double px, double py, double qx, double qy, double x0, double y0, double x1, double y1, double eps) {
        x0 += eps; y0 += eps; x1 -= eps; y1 -= eps;
        double t0 = 0, t1 = 1, dx = qx - px, dy = qy - py;
        double Pv[4] = {-dx, dx, -dy, dy}, Q[4] = {px - x0, x1 - px, py - y0, y1 - py};
        for (int i = 0; i < 4; i++) {
            if (Pv[i] == 0) { if (Q[i] <= 0) return false; }
            else { double t = Q[i] / Pv[i]; if (Pv[i] < 0) { if (t > t0) t0 = t; } else { if (t < t1) t1 = t; } }
        }
        return t0 < t1 - 1e-12;
    }
    void verify(const char *when) {
        HarnessScope hs;
        auto &N = *curNodes;
        std::string ctx = fmt("%s (iteration %d%s)", when, convCalls, resized ? ", after a resize" : "");
        for (size_t i = 0; i < N.size(); i++) for (size_t j = i + 1; j < N.size(); j++) {
            vpsc::Rectangle *a = N[i]->rect, *b = N[j]->rect;
            double ox = std::min(a->getMaxX(), b->getMaxX()) - std::max(a->getMinX(), b->getMinX()), oy = std::min(a->getMaxY(), b->getMaxY()) - std::max(a->getMinY(), b->getMinY());
            if (ox > 1e-3 && oy > 1e-3) { violate("C13", "node-overlap", "nodes-overlap", fmt("nodes %zu,%zu overlap %g x %g %s", i, j, ox, oy, ctx.c_str())); return; }
        }
        size_t ei = 0;
        for (auto e : *curRoutes) {
            topology::ConstEdgePoints pts; e->getPath(pts);
            if (pts.size() < 2) { violate("C13", "ends", "path-lost-its-points", ctx); return; }
            if (ei < es.size() && (pts.front()->node->id != es[ei].first || pts.back()->node->id != es[ei].second)) {
                violate("C13", "ends", "path-ends-changed", fmt("edge %zu: %u..%u expected %u..%u %s", ei, pts.front()->node->id, pts.back()->node->id, es[ei].first, es[ei].second, ctx.c_str())); return;
            }
            for (size_t k = 1; k < pts.size(); k++) {
                double px = pts[k - 1]->posX(), py = pts[k - 1]->posY(), qx = pts[k]->posX(), qy = pts[k]->posY();
                for (auto nd : N) {
                    if (nd->id == pts[k - 1]->node->id || nd->id == pts[k]->node->id) continue;
                    vpsc::Rectangle *rc = nd->rect;
                    if (segHitsInterior(px, py, qx, qy, rc->getMinX(), rc->getMinY(), rc->getMaxX(), rc->getMaxY(), 1e-4)) {
                        violate("C13", "no-edge-through-node", "segment-through-node", fmt("edge %u segment %zu (%g,%g)-(%g,%g) passes through node %u %s", e->id, k, px, py, qx, qy, nd->id, ctx.c_str())); return;
                    }
                }
            }
            // every bend sits on a corner of its node and the path turns around that node
            for (size_t k = 1; k + 1 < pts.size(); k++) {
                const topology::EdgePoint *bp = pts[k];
                if (bp->rectIntersect == topology::EdgePoint::CENTRE) { violate("C13", "bends", "bend-not-on-a-corner", fmt("edge %u point %zu %s", e->id, k, ctx.c_str())); return; }
                Pt A{pts[k - 1]->posX(), pts[k - 1]->posY()}, B{bp->posX(), bp->posY()}, C{pts[k + 1]->posX(), pts[k + 1]->posY()};
                Pt ctr{bp->node->rect->getCentreX(), bp->node->rect->getCentreY()};
                double turn = cross3(A, B, C), side = cross3(A, B, ctr);
                if (std::fabs(turn) > 1e-6 && turn * side < 0) { violate("C13", "bends", "bend-turns-away-from-its-node", fmt("edge %u point %zu at (%g,%g) node %u %s", e->id, k, B.x, B.y, bp->node->id, ctx.c_str())); return; }
            }
            ei++;
        }
        // "which side of every node each edge passes is the same before and after": for every edge and every bystander node,
        // the parity of crossings of the path with the upward and the rightward ray from the node's centre may only change
        // between two observed states if an end point of the path changed sides of that ray's line (then it legitimately
        // swept over the ray); a flip without that means the path jumped over the node between two states
        {
            std::map<std::tuple<unsigned, unsigned, int>, int> par;
            std::map<std::pair<unsigned, unsigned>, std::array<double, 6>> geo;      // sx, sy, tx, ty, cx, cy
            for (auto e : *curRoutes) {
                topology::ConstEdgePoints pts; e->getPath(pts);
                if (pts.size() < 2) continue;
                std::vector<Pt> P; for (auto q : pts) P.push_back(Pt{q->posX(), q->posY()});
                for (auto nd : N) {
                    if (nd->id == pts.front()->node->id || nd->id == pts.back()->node->id) continue;
                    Pt c{nd->rect->getCentreX(), nd->rect->getCentreY()};
                    int up = 0, right = 0;
                    for (size_t k = 1; k < P.size(); k++) {
                        Pt a = P[k - 1], b = P[k];
                        // upward ray (towards smaller y): half-open rule on x
                        if ((a.x <= c.x) != (b.x <= c.x)) { double y = a.y + (b.y - a.y) * (c.x - a.x) / (b.x - a.x); if (y < c.y) up ^= 1; }
                        if ((a.y <= c.y) != (b.y <= c.y)) { double x = a.x + (b.x - a.x) * (c.y - a.y) / (b.y - a.y); if (x > c.x) right ^= 1; }
                    }
                    par[std::make_tuple(e->id, nd->id, 0)] = up; par[std::make_tuple(e->id, nd->id, 1)] = right;
                    geo[{e->id, nd->id}] = {P.front().x, P.front().y, P.back().x, P.back().y, c.x, c.y};
                }
            }
            if (!prevPar.empty()) {
                for (auto &kv : par) {
                    auto it = prevPar.find(kv.first);
                    if (it == prevPar.end() || it->second == kv.second) continue;
                    unsigned eid = std::get<0>(kv.first), nid = std::get<1>(kv.first); int ray = std::get<2>(kv.first);
                    auto g0 = prevGeo[{eid, nid}], g1 = geo[{eid, nid}];
                    // legitimate if an end point changed sides of the ray's line (x for the upward ray, y for the rightward ray)
                    bool endSwept = ray == 0 ? (((g0[0] <= g0[4]) != (g1[0] <= g1[4])) || ((g0[2] <= g0[4]) != (g1[2] <= g1[4])))
                                             : (((g0[1] <= g0[5]) != (g1[1] <= g1[5])) || ((g0[3] <= g0[5]) != (g1[3] <= g1[5])));
                    if (endSwept) { probe("topology.side-parity-change-explained-by-an-end-point"); continue; }
                    // both rays must agree that something happened for a plain jump over the node; a single-ray flip can also come from
                    // the path's far part moving across the ray beyond the node -- require the flip on this ray and no explanation
                    std::string pth;
                    for (auto e2 : *curRoutes) if (e2->id == eid) { topology::ConstEdgePoints pp; e2->getPath(pp); for (auto q : pp) pth += fmt("(%g,%g)", q->posX(), q->posY()); }
                    violate("C13", "same-side", "edge-changed-sides-of-a-node-between-two-states", fmt("edge %u vs node %u (%s ray parity %d -> %d) %s; before: s(%g,%g) t(%g,%g) c(%g,%g) path %s; now: s(%g,%g) t(%g,%g) c(%g,%g) path %s", eid, nid, ray == 0 ? "upward" : "rightward", it->second, kv.second, ctx.c_str(), g0[0], g0[1], g0[2], g0[3], g0[4], g0[5], prevPath[eid].c_str(), g1[0], g1[1], g1[2], g1[3], g1[4], g1[5], pth.c_str()));
                    prevPar.clear();
                    return;
                }
                probe("topology.side-parity-compared");
            }
            prevPar = par; prevGeo = geo;
            prevPath.clear();
            for (auto e2 : *curRoutes) { topology::ConstEdgePoints pp; e2->getPath(pp); std::string pth; for (auto q : pp) pth += fmt("(%g,%g)", q->posX(), q->posY()); prevPath[e2->id] = pth; }
        }
        probe("topology.invariant-evaluated");
    }
    std::string guarded(const std::function<void()> &fn) {
        try { LibScope ls; fn(); }
        catch (vpsc::CriticalFailure &f) {
            HarnessScope hs;
            int phase = 0;
#ifdef ADAPTAGRAMS_VERIF
            phase = topology::verif_topology_phase;
#endif
            std::string file = strstr(f.file, "lib") ? strstr(f.file, "lib") : f.file;
            // a check that fails while applyResizes() is executing (hook H2) is attributed to the resize step
            bool inResize = false;
#ifdef ADAPTAGRAMS_VERIF
            inResize = topology::verif_topology_in_resize != 0; topology::verif_topology_in_resize = 0;
#endif
            if (file.find("libtopology") != std::string::npos) return std::string(inResize ? "resize:" : "") + assertSig(f) + fmt("/phase=%d", phase);
            return assertSig(f);
        }
        catch (std::exception &e) { return "std::exception"; }
        catch (const char *) { return "char*"; }
        catch (...) { return "unknown-exception"; }
        return "";
    }
    void run() override;
};

bool TopoConv::operator()(const double new_stress, std::valarray<double> &X, std::valarray<double> &Y) {
    {
        HarnessScope hs;
        s->convCalls++;
        s->w->log.ev("topo-iter", s->id, s->convCalls);
        s->w->log.d(new_stress);
        s->probe("topology.iteration");
        if (s->armed("C13")) s->verify("during");
        s->w->yieldFrom(s->id, "topo-cb", true);
        if (s->stopAtIter > 0 && s->convCalls >= s->stopAtIter) { s->w->fault("stop_at_iter"); return true; }
        if (s->convCalls > (int)s->maxIter + 1) return true;
    }
    return TestConvergence::operator()(new_stress, X, Y);
}
bool TopoPre::operator()() {
    HarnessScope hs;
    s->preCalls++;
    s->w->yieldFrom(s->id, "topo-pre", true);
    changed = false;
    { LibScope ls; if (!rz.empty()) rz.clear(); }
    for (auto &ev : s->events) {
        if (ev.i("at", 0) != s->preCalls) continue;
        LibScope ls;
        if (ev.has("lock")) {
            unsigned node = (unsigned)ev["lock"][0].i();
            if (node < s->rs.size()) {
                lk.clear();
                lk.push_back(Lock(node, s->rs[node]->getCentreX() + ev["lock"][1].num(), s->rs[node]->getCentreY() + ev["lock"][2].num()));
                changed = true; s->w->fault("lock_injected"); s->probe("topology.lock-injected");
            }
        } else if (ev.has("unlock")) { if (!lk.empty()) { lk.clear(); changed = true; s->w->fault("lock_released"); } }
        else if (ev.has("resize")) {
            unsigned node = (unsigned)ev["resize"][0].i();
            if (node < s->rs.size()) {
                vpsc::Rectangle *q = s->rs[node];
                double wd = std::max(10.0, q->width() + ev["resize"][1].num()), h = std::max(10.0, q->height() + ev["resize"][2].num());
                rz.push_back(Resize(node, q->getMinX(), q->getMinY(), wd, h));
                changed = true; s->resized = true; s->w->fault("resize_injected"); s->probe("topology.resize-injected");
            }
        }
    }
    return true;
}

void TopoSession::run() {
    const Json &cfg = spec["cfg"];
    std::vector<RectB> rr;
    for (auto &rj : cfg["rects"].a) rr.push_back(RectB{rj[0].num(), rj[1].num(), rj[2].num(), rj[3].num()});
    int n = (int)rr.size();
    std::string ex = guarded([&] {
        for (auto &c : rr) rs.push_back(new vpsc::Rectangle(c.x, c.x + c.w, c.y, c.y + c.h));
        for (auto &ej : cfg["edges"].a) if (ej[0].i() < n && ej[1].i() < n && ej[0].i() != ej[1].i()) es.push_back(Edge((unsigned)ej[0].i(), (unsigned)ej[1].i()));
        for (int i = 0; i < n; i++) tn.push_back(new topology::Node(i, rs[i]));
        // initial routes: tight around node corners, as produced by libavoid (real code)
        Avoid::Router *router = new Avoid::Router(Avoid::PolyLineRouting);
        router->setRoutingParameter(Avoid::segmentPenalty, 0);
        std::vector<Avoid::ConnRef *> crs;
        for (int i = 0; i < n; i++) { Avoid::Rectangle sr(Avoid::Point(rr[i].x, rr[i].y), Avoid::Point(rr[i].x + rr[i].w, rr[i].y + rr[i].h)); new Avoid::ShapeRef(router, sr, i + 1); }
        for (size_t i = 0; i < es.size(); i++) {
            Avoid::Point a(rs[es[i].first]->getCentreX(), rs[es[i].first]->getCentreY()), b(rs[es[i].second]->getCentreX(), rs[es[i].second]->getCentreY());
            crs.push_back(new Avoid::ConnRef(router, Avoid::ConnEnd(a), Avoid::ConnEnd(b), n + 1 + i));
        }
        router->processTransaction();
        for (size_t i = 0; i < es.size(); i++) {
            const Avoid::PolyLine &route = crs[i]->route();
            std::vector<topology::EdgePoint *> eps;
            eps.push_back(new topology::EdgePoint(tn[es[i].first], topology::EdgePoint::CENTRE));
            for (size_t j = 1; j + 1 < route.size(); j++) {
                const Avoid::Point &p = route.ps[j];
                topology::EdgePoint::RectIntersect ri;
                switch (p.vn) { case 0: ri = topology::EdgePoint::BR; break; case 1: ri = topology::EdgePoint::TR; break; case 2: ri = topology::EdgePoint::TL; break; case 3: ri = topology::EdgePoint::BL; break; default: ri = topology::EdgePoint::CENTRE; }
                if (p.id >= 1 && p.id <= (unsigned)n) eps.push_back(new topology::EdgePoint(tn[p.id - 1], ri));
            }
            eps.push_back(new topology::EdgePoint(tn[es[i].second], topology::EdgePoint::CENTRE));
            routes.push_back(new topology::Edge(i, cfg.num("ideal", 50), eps));
        }
        delete router;
        maxIter = (unsigned)cfg.i("maxiter", 60);
        conv = new TopoConv(this, maxIter);
        pre = new TopoPre(this);
        alg = new ConstrainedFDLayout(rs, es, cfg.num("ideal", 50), StandardEdgeLengths, conv, cfg.boolean("preiteration", true) ? pre : nullptr);
        topo = new topology::ColaTopologyAddon(tn, routes);
        alg->setTopology(topo);
    });
    if (!ex.empty()) { probe(ex.c_str()); violate("C15", "assert", ex, "topology setup"); dead = true; }
    curNodes = &tn; curRoutes = &routes;
    if (!dead && armed("C13")) {
        // the generator must hand over a valid initial state; if libavoid's routes are not, the run is not judged
        size_t before = w->violations.size();
        verify("before");
        if (w->violations.size() != before) { HarnessScope hs; w->violations.resize(before); probe("topology.initial-state-invalid-not-judged"); dead = true; }
    }
    const Json &ops = spec["ops"];
    for (size_t oi = 0; oi < ops.size() && !dead; oi++) {
        curOp = (int)oi;
        const Json &op = ops[oi];
        std::string o = op.str("op", "");
        if (o == "direct") {
            // One live TopologyConstraints object driven through several moves (as libtopology's own tests and an interactive
            // client do): desired positions change between solve() calls, so bends released by one move may have to come back
            // in the next.  (ColaTopologyAddon, used by "run", builds a fresh object for every pass.)
            if (curNodes != &tn) continue;
            w->log.ev("topo-direct", id, (long)oi);
            vpsc::Dim dim = op.i("dim", 0) ? vpsc::VERTICAL : vpsc::HORIZONTAL;
            vpsc::Variables vs; vpsc::Constraints cs;
            topology::TopologyConstraints *t = nullptr;
            std::string e2 = guarded([&] {
                for (size_t i = 0; i < tn.size(); i++) vs.push_back(new vpsc::Variable((int)i, dim == vpsc::HORIZONTAL ? rs[i]->getCentreX() : rs[i]->getCentreY()));
                topology::setNodeVariables(tn, vs);       // as ColaTopologyAddon does before every pass
                t = new topology::TopologyConstraints(dim, tn, routes, nullptr, vs, cs);
            });
            int step = 0;
            for (auto &st : op["steps"].a) {
                if (!e2.empty()) break;
                step++;
                e2 = guarded([&] {
                    for (size_t i = 0; i < tn.size(); i++) { vs[i]->desiredPosition = dim == vpsc::HORIZONTAL ? rs[i]->getCentreX() : rs[i]->getCentreY(); vs[i]->weight = 1; }
                    for (auto &sj : st["set"].a) { size_t i = (size_t)sj[0].i(); if (i < tn.size()) { vs[i]->desiredPosition = sj[1].num(); vs[i]->weight = 10000; } }
                    t->solve();
                });
                if (!e2.empty()) break;
                probe("topology.direct-solve");
                if (armed("C13")) verify("direct");
                yield("direct-step");
            }
            if (!e2.empty()) {
                w->fault("exception"); probe(e2.c_str());
                violate("C15", "assert", e2, "during TopologyConstraints::solve");
                violate("C13", "library-check", "direct:" + e2, fmt("direct move %d", step));       // own signature class: its baseline rate differs from the layout's
                dead = true; break;
            }
            std::string e3 = guarded([&] { delete t; for (auto v : vs) delete v; for (auto c : cs) delete c; for (auto nd : tn) nd->var = nullptr; });
            if (!e3.empty()) { probe(e3.c_str()); violate("C15", "assert", e3, "TopologyConstraints teardown"); dead = true; break; }
            yield("op");
            continue;
        }
        if (o == "boundary") {
            // C15 only: the cyclic edge libtopology keeps for the boundary of a cola::ConvexCluster (built as ColaTopologyAddon::makeFeasible
            // builds it: hull corners from the real ConvexCluster::computeBoundary, first point repeated as last), on private copies of the
            // rectangles, driven through TopologyConstraints passes in both dimensions.  Generated variants: corners of member rectangles
            // lying exactly on a hull side are kept as (degenerate) bends, and the cycle may start at any of its points.
            if (!armed("C15")) continue;
            w->log.ev("topo-boundary", id, (long)oi);
            vpsc::Rectangles brs; std::vector<topology::Node *> bn; std::vector<topology::Edge *> bes;
            std::string eb = guarded([&] {
                for (auto q : rs) brs.push_back(new vpsc::Rectangle(q->getMinX(), q->getMaxX(), q->getMinY(), q->getMaxY()));
                if (op.has("align")) {
                    // one member is slid (on the private copies) until one of its sides is level with the same side of another member,
                    // as an alignment constraint leaves them; skipped when it would come within 8 of any other rectangle
                    size_t ia = (size_t)op["align"][0].i(), ib = (size_t)op["align"][1].i(); int side = (int)op["align"][2].i();
                    if (ia < brs.size() && ib < brs.size() && ia != ib) {
                        vpsc::Rectangle *A = brs[ia], *B = brs[ib];
                        double dx = 0, dy = 0;
                        switch (side) { case 0: dy = A->getMinY() - B->getMinY(); break; case 1: dy = A->getMaxY() - B->getMaxY(); break; case 2: dx = A->getMinX() - B->getMinX(); break; default: dx = A->getMaxX() - B->getMaxX(); }
                        RectB nb{B->getMinX() + dx, B->getMinY() + dy, B->width(), B->height()};
                        bool ok = true;
                        for (size_t i = 0; i < brs.size(); i++) if (i != ib && rectsOverlap(nb, RectB{brs[i]->getMinX(), brs[i]->getMinY(), brs[i]->width(), brs[i]->height()}, 8)) ok = false;
                        if (ok) { B->moveMinX(nb.x); B->moveMinY(nb.y); probe("topology.boundary-members-aligned"); }
                    }
                }
                cola::ConvexCluster cc;
                std::set<unsigned> mem;
                for (auto &mj : op["members"].a) if ((size_t)mj.i() < brs.size()) mem.insert((unsigned)mj.i());
                if (mem.size() < 2) return;
                for (unsigned m : mem) cc.addChildNode(m);
                cc.computeBoundary(brs);
                size_t hn = cc.hullRIDs.size();
                if (hn < 3) return;
                double bx0 = 1e300, bx1 = -1e300, by0 = 1e300, by1 = -1e300;
                for (size_t j = 0; j < hn; j++) { bx0 = std::min(bx0, cc.hullX[j]); bx1 = std::max(bx1, cc.hullX[j]); by0 = std::min(by0, cc.hullY[j]); by1 = std::max(by1, cc.hullY[j]); }
                std::map<unsigned, unsigned> nodeOf;
                for (unsigned i = 0; i < brs.size(); i++) {
                    bool in = mem.count(i) > 0;
                    if (!in) { vpsc::Rectangle *q = brs[i]; if (q->getMaxX() < bx0 - 8 || q->getMinX() > bx1 + 8 || q->getMaxY() < by0 - 8 || q->getMinY() > by1 + 8) in = true; }
                    if (in) { nodeOf[i] = (unsigned)bn.size(); bn.push_back(new topology::Node((unsigned)bn.size(), brs[i])); }
                }
                auto cornerPos = [&](unsigned rid, unsigned c, double &x, double &y) { vpsc::Rectangle *q = brs[rid]; x = (c == 0 || c == 1) ? q->getMaxX() : q->getMinX(); y = (c == 1 || c == 2) ? q->getMaxY() : q->getMinY(); };
                std::vector<std::pair<unsigned, unsigned>> path;       // (rect, corner 0 BR 1 TR 2 TL 3 BL)
                bool keep = op.boolean("keep_collinear", false);
                for (size_t j = 0; j < hn; j++) {
                    path.push_back({cc.hullRIDs[j], (unsigned)cc.hullCorners[j]});
                    if (!keep) continue;
                    double px = cc.hullX[j], py = cc.hullY[j], qx = cc.hullX[(j + 1) % hn], qy = cc.hullY[(j + 1) % hn];
                    std::vector<std::tuple<double, unsigned, unsigned>> on;
                    for (unsigned m : mem) for (unsigned c = 0; c < 4; c++) {
                        double x, y; cornerPos(m, c, x, y);
                        if ((x == px && y == py) || (x == qx && y == qy)) continue;
                        if ((qx - px) * (y - py) - (qy - py) * (x - px) != 0) continue;
                        double t = (x - px) * (qx - px) + (y - py) * (qy - py), l2 = (qx - px) * (qx - px) + (qy - py) * (qy - py);
                        if (t <= 0 || t >= l2) continue;
                        on.push_back(std::make_tuple(t, m, c));
                    }
                    std::sort(on.begin(), on.end());
                    for (auto &tp : on) { path.push_back({std::get<1>(tp), std::get<2>(tp)}); probe("topology.boundary-collinear-corner-kept"); }
                }
                size_t rot = (size_t)op.i("rot", 0) % path.size();
                if (op.boolean("start_at_collinear", false) && path.size() > hn) {
                    // the cycle starts (and ends) at a kept collinear corner: the join point itself is a degenerate bend
                    std::set<std::pair<unsigned, unsigned>> hullPts; for (size_t j = 0; j < hn; j++) hullPts.insert({cc.hullRIDs[j], (unsigned)cc.hullCorners[j]});
                    std::vector<size_t> cand; for (size_t k = 0; k < path.size(); k++) if (!hullPts.count(path[k])) cand.push_back(k);
                    if (!cand.empty()) { rot = cand[(size_t)op.i("rot", 0) % cand.size()]; probe("topology.boundary-join-point-degenerate"); }
                }
                if (rot) probe("topology.boundary-rotated-start");
                std::vector<topology::EdgePoint *> eps;
                for (size_t k = 0; k < path.size(); k++) {
                    auto &pc = path[(rot + k) % path.size()];
                    topology::EdgePoint::RectIntersect ri = pc.second == 0 ? topology::EdgePoint::BR : pc.second == 1 ? topology::EdgePoint::TR : pc.second == 2 ? topology::EdgePoint::TL : topology::EdgePoint::BL;
                    eps.push_back(new topology::EdgePoint(bn[nodeOf[pc.first]], ri));
                }
                eps.push_back(eps[0]);
                bes.push_back(new topology::Edge(0, 2.0 * sqrt(M_PI * cc.area(brs)), eps));
                probe("topology.boundary-built");
                for (auto &ps : op["passes"].a) {
                    vpsc::Dim dim = ps.i("dim", 0) ? vpsc::VERTICAL : vpsc::HORIZONTAL;
                    vpsc::Variables vs; vpsc::Constraints cs;
                    for (size_t i = 0; i < bn.size(); i++) vs.push_back(new vpsc::Variable((int)i, bn[i]->rect->getCentreD(dim)));
                    topology::setNodeVariables(bn, vs);
                    for (auto &sj : ps["set"].a) { auto it = nodeOf.find((unsigned)sj[0].i()); if (it != nodeOf.end()) { vs[it->second]->desiredPosition = bn[it->second]->rect->getCentreD(dim) + sj[1].num(); vs[it->second]->weight = 100; } }
                    struct Cleanup { vpsc::Variables &vs; vpsc::Constraints &cs; std::vector<topology::Node *> &bn; ~Cleanup() { for (auto v : vs) delete v; for (auto c : cs) delete c; for (auto nd : bn) nd->var = nullptr; } } cu{vs, cs, bn};
                    {
                        topology::TopologyConstraints t(dim, bn, bes, nullptr, vs, cs);
                        int guard = 0;
                        while (t.solve() && ++guard < 30) {}
                    }
                    probe("topology.boundary-pass");
                    if (!bes[0]->cycle()) { HarnessScope hs; violate("C15", "assert", "boundary-no-longer-a-cycle", "after a TopologyConstraints pass"); }
                }
            });
            if (!eb.empty()) { w->fault("exception"); probe(eb.c_str()); violate("C15", "assert", "boundary:" + eb, "cluster boundary passes"); }
            std::string ec = guarded([&] { for (auto e : bes) delete e; for (auto nd : bn) delete nd; for (auto q : brs) delete q; });
            if (!ec.empty()) { probe(ec.c_str()); violate("C15", "assert", "boundary:" + ec, "cluster boundary teardown"); }
            yield("op");
            continue;
        }
        if (o != "run") continue;
        w->log.ev("topo-run", id, (long)oi);
        convCalls = 0; preCalls = 0; stopAtIter = 0; events.clear();
        for (auto &f : op["faults"].a) { if (f.has("stop_at_iter")) stopAtIter = (int)f["stop_at_iter"].i(); else events.push_back(f); }
        std::string e2 = guarded([&] { alg->run(op.boolean("x", true), op.boolean("y", true)); });
        if (!e2.empty()) {
            w->fault("exception"); probe(e2.c_str());
            violate("C15", "assert", e2, "during topology layout");
            violate("C13", "library-check", e2, fmt("iteration %d%s", convCalls, resized ? ", after a resize" : ""));
            dead = true; break;
        }
        probe("topology.run");
        {
            HarnessScope hs;
            // getTopology() hands out a clone the caller owns; the node/edge objects themselves stay owned by the layout
            cola::TopologyAddonInterface *cl = nullptr;
            { LibScope ls; cl = alg->getTopology(); }
            topology::ColaTopologyAddon *res = dynamic_cast<topology::ColaTopologyAddon *>(cl);
            if (res) { resNodes = res->topologyNodes; resRoutes = res->topologyRoutes; curNodes = &resNodes; curRoutes = &resRoutes; }
            { LibScope ls; delete cl; }
            if (armed("C13")) verify("after");
            std::vector<double> out;
            for (auto r : rs) { out.push_back(r->getCentreX()); out.push_back(r->getCentreY()); }
            record(out, false);
        }
        yield("op");
    }
    curOp = -1;
    if (!dead) {
        std::string e3 = guarded([&] {
            alg->freeAssociatedObjects();
            delete alg; delete conv; delete pre; delete topo;
        });
        if (!e3.empty()) { probe(e3.c_str()); violate("C15", "assert", e3, "topology teardown"); }
    }
}
static Session *mkTopo() { return new TopoSession(); }
static SessionRegistrar rt1("topolayout", mkTopo);

Json genTopoSession(Rng &r, const std::string &tier) {
    Json s = Json::obj(); s.set("kind", "topolayout");
    Json cfg = Json::obj();
    std::vector<RectB> rr;
    int n = r.range(3, tier == "thorough" ? 10 : 8);
    for (int i = 0; i < n; i++) for (int t = 0; t < 80; t++) {
        RectB c{(double)r.below(30) * 10, (double)r.below(25) * 10, (double)(20 + r.below(4) * 10), (double)(20 + r.below(3) * 10)};
        bool ok = true; for (auto &o : rr) if (rectsOverlap(c, o, 8)) ok = false;
        if (ok) { rr.push_back(c); break; }
    }
    n = (int)rr.size();
    Json rects = Json::arr();
    for (auto &c : rr) { Json rj = Json::arr(); rj.push(c.x); rj.push(c.y); rj.push(c.w); rj.push(c.h); rects.push(rj); }
    cfg.set("rects", rects);
    Json edges = Json::arr();
    std::set<std::pair<int, int>> have;
    for (int i = 1; i < n; i++) { int a = (int)r.below(i); Json e = Json::arr(); e.push(a); e.push(i); edges.push(e); have.insert({a, i}); }
    int extra = (int)r.below(3);
    for (int k = 0; k < extra; k++) { int a = (int)r.below(n), b = (int)r.below(n); if (a > b) std::swap(a, b); if (a != b && !have.count({a, b})) { Json e = Json::arr(); e.push(a); e.push(b); edges.push(e); have.insert({a, b}); } }
    cfg.set("edges", edges);
    cfg.set("ideal", (double)(40 + r.below(40)));
    cfg.set("maxiter", (long)r.pick(std::vector<int>{20, 60, 100}));
    cfg.set("preiteration", true);
    s.set("cfg", cfg);
    Json ops = Json::arr();
    if (r.chance(0.3)) {
        // direct moves on one live TopologyConstraints object: a few nodes are dragged, then dragged back or further
        Json o = Json::obj(); o.set("op", "direct"); int dim = (int)r.below(2); o.set("dim", dim);
        Json steps = Json::arr();
        int k = r.range(2, 5);
        std::vector<std::pair<int, double>> last;
        for (int st = 0; st < k; st++) {
            Json sj = Json::obj(); Json set = Json::arr();
            if (!last.empty() && r.chance(0.5)) { for (auto &pr : last) { Json e = Json::arr(); e.push(pr.first); e.push(pr.second); set.push(e); } last.clear(); }     // back to where they came from
            else {
                int m = r.range(1, 2); last.clear();
                for (int j = 0; j < m; j++) {
                    int i = (int)r.below(n); double cur = dim == 0 ? rr[i].x + rr[i].w / 2 : rr[i].y + rr[i].h / 2;
                    double to = cur + (double)r.range(-12, 12) * 10;
                    Json e = Json::arr(); e.push(i); e.push(to); set.push(e); last.push_back({i, cur});
                }
            }
            sj.set("set", set); steps.push(sj);
        }
        o.set("steps", steps); ops.push(o);
    }
    int runs = r.range(1, 2);
    for (int k = 0; k < runs; k++) {
        Json o = Json::obj(); o.set("op", "run");
        Json fl = Json::arr();
        if (r.chance(0.6)) { Json f = Json::obj(); f.set("stop_at_iter", (long)r.range(1, 15)); fl.push(f); }
        if (r.chance(0.5)) {
            int at = r.range(1, 20);
            Json f = Json::obj(); f.set("at", at); Json l = Json::arr(); l.push((long)r.below(n)); l.push((double)r.range(-40, 40)); l.push((double)r.range(-40, 40)); f.set("lock", l); fl.push(f);
            Json u = Json::obj(); u.set("at", at + r.range(2, 30)); u.set("unlock", true); fl.push(u);
        }
        if (r.chance(0.35)) { Json f = Json::obj(); f.set("at", r.range(1, 20)); Json z = Json::arr(); z.push((long)r.below(n)); z.push((double)r.range(-1, 3) * 10); z.push((double)r.range(-1, 3) * 10);
            // side stream: now and then a node grows by several times its size (a label edited, a group expanded) -- neighbours are pushed
            // far enough for bends to be merged away while the node is still growing
            { Rng r2(Rng::mix(r.s, "big-resize")); if (r2.chance(0.3)) { if (r2.chance(0.7)) z.a[1] = Json((double)r2.range(4, 12) * 10); if (r2.chance(0.7)) z.a[2] = Json((double)r2.range(4, 12) * 10); } }
            f.set("resize", z); fl.push(f); }
        if (fl.size()) o.set("faults", fl);
        // single-axis runs: the coordinates of the other axis keep their grid values for the whole run, so that sides of
        // different nodes (and the bends created on them) coincide exactly -- the tie cases of the scan-line code
        { int ax = (int)r.below(10); if (ax < 2) o.set("x", false); else if (ax < 3) o.set("y", false); }
        ops.push(o);
    }
    {   // side stream (all other draws stay as they were): a cluster boundary exercised on its own, see op "boundary"
        Rng r2(Rng::mix(r.s, "boundary"));
        if (n >= 3 && r2.chance(0.4)) {
            Json o = Json::obj(); o.set("op", "boundary");
            Json mem = Json::arr(); int m = r2.range(2, std::min(n, 4)); std::set<int> ch; while ((int)ch.size() < m) ch.insert((int)r2.below(n)); for (int i : ch) mem.push((long)i);
            o.set("members", mem); o.set("keep_collinear", r2.chance(0.6)); o.set("rot", r2.chance(0.6) ? (long)r2.below(16) : 0L);
            if (r2.chance(0.7)) { std::vector<int> mv(ch.begin(), ch.end()); int ia = (int)r2.below(mv.size()), ib = (int)r2.below(mv.size() - 1); if (ib >= ia) ib++;
                Json al = Json::arr(); al.push((long)mv[ia]); al.push((long)mv[ib]); al.push((long)r2.below(4)); o.set("align", al); }
            o.set("start_at_collinear", r2.chance(0.5));
            Json passes = Json::arr(); int np = r2.range(2, 4); int d0 = (int)r2.below(2);
            for (int k = 0; k < np; k++) { Json ps = Json::obj(); ps.set("dim", (long)((d0 + k) % 2)); Json set = Json::arr(); int mv = r2.range(0, 2);
                for (int j = 0; j < mv; j++) { Json e = Json::arr(); e.push((long)r2.below(n)); e.push((double)r2.range(-6, 6) * 10); set.push(e); }
                ps.set("set", set); passes.push(ps); }
            o.set("passes", passes); ops.push(o);
        }
    }
    s.set("ops", ops);
    return s;
}
static Json genC13(const std::string &prop, uint64_t seed, const std::string &tier) {
    Rng r(Rng::mix(seed, "plan"));
    Json p = planSkeleton(prop, "layout", seed, r, 200);
    Json ss = Json::arr();
    int ns = r.chance(0.3) ? 2 : 1;
    for (int i = 0; i < ns; i++) ss.push(genTopoSession(r, tier));
    if (r.chance(0.2)) ss.push(genOverlapSession(r, "quick"));
    p.set("sessions", ss);
    return p;
}
static GenRegistrar gt13("C13", genC13);
static Json mixTopo(Rng &r, const std::string &tier, bool) { return genTopoSession(r, tier); }
static MixGenRegistrar mgt(mixTopo);
