#include "core.h"
#include <cstdarg>
#include <cstdio>
#include <signal.h>

std::string fmt(const char *f, ...) {
    char buf[2048];
    va_list ap; va_start(ap, f); vsnprintf(buf, sizeof buf, f, ap); va_end(ap);
    return buf;
}

void EvLog::ev(const char *what, long a, long b) {
    str(what); mixv((uint64_t)a); mixv((uint64_t)b);
    if (trace) { char buf[256]; snprintf(buf, sizeof buf, "%s %ld %ld\n", what, a, b); text += buf; }
}

// ---------------------------------------------------------------- registries
static std::map<std::string, SessionFactory> &kinds() { static std::map<std::string, SessionFactory> m; return m; }
static std::map<std::string, PlanGenerator> &gens() { static std::map<std::string, PlanGenerator> m; return m; }
static std::vector<YieldInvariant> &yinv() { static std::vector<YieldInvariant> v; return v; }
void registerYieldInvariant(YieldInvariant f) { yinv().push_back(f); }
static std::vector<EndInvariant> &einv() { static std::vector<EndInvariant> v; return v; }
void registerEndInvariant(EndInvariant f) { einv().push_back(f); }
void registerSessionKind(const char *kind, SessionFactory f) { kinds()[kind] = f; }
void registerGenerator(const char *prop, PlanGenerator g) { gens()[prop] = g; }
Json genPlan(const std::string &prop, uint64_t seed, const std::string &tier) {
    auto it = gens().find(prop);
    if (it == gens().end()) throw std::runtime_error("no generator for " + prop);
    return it->second(prop, seed, tier);
}

Json planSkeleton(const std::string &prop, const std::string &engine, uint64_t seed, Rng &rng, int nSchedule) {
    Json p = Json::obj();
    p.set("prop", prop);
    p.set("engine", engine);
    p.set("seed", (double)(seed & ((1ULL << 52) - 1)));
    Rng ra(Rng::mix(seed, "alloc")), rsch(Rng::mix(seed, "sched")), rc(Rng::mix(seed, "clock"));
    Json al = Json::obj();
    al.set("seed", (double)(ra.next() >> 12));
    int pl = (int)ra.below(10);
    al.set("placement", pl < 6 ? "random" : pl < 8 ? "lifo" : "fifo");
    int fi = (int)ra.below(10);
    al.set("fill", fi < 7 ? "random" : fi < 8 ? "zero" : "ab");
    p.set("alloc", al);
    Json sc = Json::arr();
    // mostly "stay" (0) with bursts of switching, so runs make progress between switches
    double pswitch = rsch.pick(std::vector<double>{0.1, 0.3, 0.6, 0.9});
    for (int i = 0; i < nSchedule; i++) sc.push(rsch.chance(pswitch) ? (long)rsch.below(7) : 0L);
    p.set("schedule", sc);
    Json ck = Json::arr();
    for (int i = 0; i < nSchedule; i++) {
        long us = (long)rc.below(3000);
        if (rc.chance(0.03)) us = (long)rc.below(5) * 1000000L;              // seconds
        if (rc.chance(0.005)) us = 3600L * 1000000L * (1 + (long)rc.below(3)); // hours
        ck.push(us);
    }
    p.set("clock", ck);
    p.set("sessions", Json::arr());
    (void)rng;
    return p;
}

// ---------------------------------------------------------------- session helpers
void Session::violate(const char *prop, const std::string &clause, const std::string &sig, const std::string &detail) {
    HarnessScope hs;
    if (!w->armed(prop)) return;
    Violation v; v.prop = prop; v.clause = clause; v.sig = sig; v.detail = detail; v.session = id; v.op = curOp;
    w->violate(v);
}
bool Session::armed(const char *prop) const { return w->armed(prop); }
void Session::probe(const char *name, long k) { HarnessScope hs; w->probe(name, k); }
void Session::yield(const char *what) { w->yieldFrom(id, what, true); }
void Session::record(const std::vector<double> &v, bool exact) {
    HarnessScope hs;
    while ((int)obs.size() <= curOp) { obs.push_back({}); obsExact.push_back(1); }
    if (curOp >= 0) {
        obs[curOp].insert(obs[curOp].end(), v.begin(), v.end());
        if (!exact) obsExact[curOp] = 0;
    }
    for (double d : v) w->log.d(d);
}

// ---------------------------------------------------------------- world
void World::violate(const Violation &v) {
    HarnessScope hs;
    if (violations.size() < 50) violations.push_back(v);
    log.ev("VIOLATION", (long)violations.size());
}

void World::load(const Json &p) {
    plan = p;
    for (auto &x : p["schedule"].a) schedule.push_back(x.i());
    for (auto &x : p["clock"].a) clockInc.push_back(x.i());
    if (p.has("armed")) for (auto &x : p["armed"].a) armedProps.insert(x.str());
    else armedProps.insert(p.str("prop", ""));
    const Json &al = p["alloc"];
    simalloc_configure((uint64_t)al.num("seed", 1), al.str("placement", "lifo"), al.str("fill", "ab"));
    int k = 0;
    for (auto &s : p["sessions"].a) {
        auto it = kinds().find(s.str("kind", ""));
        if (it == kinds().end()) throw std::runtime_error("unknown session kind " + s.str("kind", ""));
        Session *ss = it->second();
        ss->w = this; ss->id = k++; ss->spec = s;
        sessions.push_back(ss);
    }
    state.assign(sessions.size(), 0);
}

void World::pickNext(std::unique_lock<std::mutex> &, int me) {
    // runnable tasks, the yielding task first: schedule value 0 == "carry on"
    std::vector<int> r;
    if (me >= 0 && state[me] == 0) r.push_back(me);
    for (size_t i = 0; i < state.size(); i++) if (state[i] == 0 && (int)i != me) r.push_back((int)i);
    if (r.empty()) { current = -2; cv.notify_all(); return; }
    long v = schedPos < schedule.size() ? schedule[schedPos] : 0;
    schedPos++;
    if (v < 0) v = -v;
    if (yields > maxYields) v = 0;       // cap: after the budget nobody is preempted any more
    int nxt = r[(size_t)v % r.size()];
    if (nxt != me) switches++;
    current = nxt;
    log.ev("sched", nxt);
    cv.notify_all();
}

void World::yieldFrom(int me, const char *what, bool insideCallback) {
    HarnessScope hs;
    std::unique_lock<std::mutex> lk(mu);
    yields++;
    long inc = clockPos < clockInc.size() ? clockInc[clockPos] : 100;
    clockPos++;
    g_simclock_us += inc;
    if (inc >= 1000000) fault("clock_jump");
    log.ev(what, me, g_simclock_us / 1000);
    for (auto &f : yieldInvariants) f(*this, me);
    for (auto f : yinv()) f(*this, me);
    int before = current;
    pickNext(lk, me);
    if (current != before && insideCallback) cbSwitches++;
    cv.wait(lk, [&] { return current == me; });
}

void World::runAll() {
    std::vector<std::thread> th;
    for (size_t i = 0; i < sessions.size(); i++) {
        th.emplace_back([this, i] {
            {
                std::unique_lock<std::mutex> lk(mu);
                cv.wait(lk, [&] { return current == (int)i; });
            }
            Session *s = sessions[i];
            // alternate signal stack, so that a stack overflow inside the library still produces a crash signature
#ifndef SIM_SAN
            static thread_local char altstack[1 << 16];
            stack_t ss; ss.ss_sp = altstack; ss.ss_size = sizeof altstack; ss.ss_flags = 0; sigaltstack(&ss, nullptr);
#endif
            try {
                s->run();
            } catch (std::exception &e) {
                tl_libscope = 0;
                Violation v; v.prop = "HARNESS"; v.clause = "uncaught"; v.sig = "std::exception"; v.detail = e.what(); v.session = (int)i; v.op = s->curOp;
                violations.push_back(v);
            } catch (...) {
                tl_libscope = 0;
                Violation v; v.prop = "HARNESS"; v.clause = "uncaught"; v.sig = "unknown exception"; v.session = (int)i; v.op = s->curOp;
                violations.push_back(v);
            }
            tl_libscope = 0;
            std::unique_lock<std::mutex> lk(mu);
            state[i] = 1;
            log.ev("done", (long)i);
            pickNext(lk, (int)i);
        });
    }
    {
        std::unique_lock<std::mutex> lk(mu);
        pickNext(lk, -1);
        cv.wait(lk, [&] { return current == -2; });
    }
    for (auto &t : th) t.join();
    for (auto f : einv()) f(*this);      // cross-session checks over the recorded history (e.g. frame twins)
}

Json World::result() const {
    Json r = Json::obj();
    char hb[32]; snprintf(hb, 32, "%016llx", (unsigned long long)log.h);
    r.set("hash", hb);
    r.set("events", log.n);
    r.set("yields", yields); r.set("switches", switches); r.set("cb_switches", cbSwitches);
    r.set("sim_ms", (g_simclock_us - 1000000) / 1000);
    Json v = Json::arr();
    for (auto &x : violations) v.push(x.toJson());
    r.set("violations", v);
    Json pr = Json::obj();
    for (auto &kv : probes) pr.set(kv.first, kv.second);
    r.set("probes", pr);
    Json fa = Json::obj();
    for (auto &kv : faults) fa.set(kv.first, kv.second);
    if (SimFS::failed) fa.set("fopen_fail", SimFS::failed);
    r.set("faults", fa);
    SimAllocStats st = simalloc_stats();
    Json al = Json::obj();
    al.set("allocs", (double)st.allocs); al.set("frees", (double)st.frees);
    al.set("inverted", (double)st.reuse_out_of_order); al.set("redzone_errors", (double)st.redzone_errors);
    r.set("alloc", al);
    r.set("clock_reads", g_clock_reads);
    r.set("fopens", SimFS::opens);
    if (plan.has("subject")) {
        long sj = plan["subject"].i();
        if (sj >= 0 && sj < (long)sessions.size()) {
            Json ob = Json::arr(), ex = Json::arr();
            for (auto &o : sessions[sj]->obs) { Json a = Json::arr(); for (double d : o) a.push(d); ob.push(a); }
            for (int e : sessions[sj]->obsExact) ex.push(e);
            r.set("obs", ob); r.set("obs_exact", ex);
        }
        // the same session a second time in this process (C20 "repeat" variant D)
        long s2 = plan.i("subject2", -1);
        if (s2 >= 0 && s2 < (long)sessions.size()) {
            Json ob = Json::arr();
            for (auto &o : sessions[s2]->obs) { Json a = Json::arr(); for (double d : o) a.push(d); ob.push(a); }
            r.set("obs2", ob);
        }
    }
    if (log.trace) r.set("trace", log.text);
    return r;
}
