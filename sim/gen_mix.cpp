// E-MIX plan generators: C15 (all session kinds in one world, sanitizer build,
// teardown anywhere, faults everywhere) and C20 (subject session solo vs busy
// world vs other heap; frame twins).
#include "router_gen.h"
#include "mix_gen.h"
#include "geom.h"
enum { P_segment = 0, P_angle, P_crossing, P_clusterCrossing, P_fixedShared, P_portDir, P_buffer, P_nudgeDist, P_reverse };
enum { O_nudgeAttached = 0, O_hyperMove, O_penaliseSharedEnds, O_nudgeTouching, O_unifying, O_hyperAddDel, O_nudgeCommonEnd };

// a router session in "anything legal goes" configuration
Json genAnyRouterSession(Rng &r, const std::string &tier, bool forC20) {
    RouterGenCfg g;
    g.ortho = r.chance(0.5);
    g.polygons = r.chance(0.5);
    g.costOracles = false;
    g.transactions = forC20 ? true : !r.chance(0.25);
    g.selective = r.chance(0.8); g.invis = r.chance(0.8); g.lees = r.chance(0.7);
    g.params[P_segment] = r.pick(std::vector<double>{0, 10, 50});
    if (g.ortho && g.params[P_segment] == 0) g.params[P_segment] = 10;
    if (r.chance(0.3)) { g.params[P_crossing] = r.pick(std::vector<double>{100, 200}); g.cancelFaults = !forC20; }
    if (r.chance(0.2)) g.params[P_fixedShared] = 110;
    if (r.chance(0.2)) g.params[P_angle] = 20;
    if (r.chance(0.2)) { double b = r.pick(std::vector<double>{4, 8}); g.params[P_buffer] = b; g.gap = 2 * b + 5; g.endMargin = b + 1; g.polygons = false; }
    if (r.chance(0.15)) { g.touching = true; g.gap = 0; }
    if (g.ortho) {
        g.params[P_nudgeDist] = r.pick(std::vector<double>{0, 4, 10});
        g.options[O_nudgeAttached] = r.chance(0.3); g.options[O_unifying] = r.chance(0.7);
        g.options[O_nudgeTouching] = r.chance(0.3); g.options[O_nudgeCommonEnd] = r.chance(0.3); g.options[O_penaliseSharedEnds] = r.chance(0.3);
    }
    g.dirRestrict = r.chance(0.3);
    g.checkpoints = r.chance(0.3);
    g.outputOps = !forC20 && r.chance(0.4);
    g.trailingEdits = !forC20;
    if (extendRouterCfgForMix) extendRouterCfgForMix(r, g, forC20);
    if (tier == "thorough") { g.maxShapes = 10; g.maxConns = 8; g.maxSteps = 9; }
    Json sess = genRouterSession(r, g);
    if (!forC20) {
        // side stream (memory-safety worlds only): ephemeral connectors -- created and deleted again before the router has processed
        // them (a click that is undone at once), somewhere in the history; ids of their own, so nothing else refers to them
        Rng r2(Rng::mix(r.s, "ephemeral-connector"));
        if (r2.chance(0.35)) {
            Json ops = sess["ops"]; int k = r2.range(1, 2);
            for (int i = 0; i < k; i++) {
                size_t at = (size_t)r2.below(ops.size() + 1);
                Json a = Json::obj(); a.set("op", "addConn"); a.set("id", 900 + i);
                Json ea = Json::obj(), eb = Json::obj(); Json pa = Json::arr(), pb = Json::arr();
                pa.push((double)r2.below(50) * 10); pa.push((double)r2.below(50) * 10); pb.push((double)r2.below(50) * 10); pb.push((double)r2.below(50) * 10 + 5);
                ea.set("pt", pa); eb.set("pt", pb); a.set("src", ea); a.set("dst", eb); a.set("ctor", (long)r2.below(2));
                Json d = Json::obj(); d.set("op", "deleteConn"); d.set("id", 900 + i);
                ops.a.insert(ops.a.begin() + (long)at, d); ops.a.insert(ops.a.begin() + (long)at, a);
            }
            sess.set("ops", ops);
        }
    }
    return sess;
}

std::vector<MixSessionGen> &mixSessionGens() { static std::vector<MixSessionGen> v; return v; }
void (*extendRouterCfgForMix)(Rng &, RouterGenCfg &, bool) = nullptr;

static Json anySession(Rng &r, const std::string &tier, bool forC20) {
    auto &extra = mixSessionGens();
    int k = (int)r.below(6 + 3 * (uint64_t)extra.size());
    if (k < 3) return genAnyRouterSession(r, tier, forC20);
    if (k == 3) return genSolverSession(r, "quick");
    if (k == 4) return genSolverSession(r, "quick", 1);
    if (k == 5) return genOverlapSession(r, "quick");
    return extra[(size_t)(k - 6) / 3](r, tier, forC20);
}

static Json genC15(const std::string &prop, uint64_t seed, const std::string &tier) {
    Rng r(Rng::mix(seed, "plan"));
    Json p = planSkeleton(prop, "mix", seed, r, 300);
    Json ss = Json::arr();
    int n = r.range(1, 4);
    for (int i = 0; i < n; i++) ss.push(anySession(r, tier, false));
    p.set("sessions", ss);
    // LeakSanitizer's stop-the-world check costs ~350 ms: run it in one run out of six
    // ... and in every world in which a layout is ended early through its callbacks (PreIteration returning false, the
    // convergence test stopping it): the clean-up of those paths is exactly what only a leak check sees
    bool early = false;
    for (auto &sj : ss.a) { std::string k = sj.str("kind", ""); if (k != "layout" && k != "topolayout") continue;
        for (auto &oj : sj["ops"].a) for (auto &f : oj["faults"].a) if (f.has("interrupt_at_precall") || f.has("stop_at_iter")) early = true; }
    p.set("leakcheck", seed % 6 == 0 || early);
    return p;
}

static Json genC20Frame(uint64_t seed, const std::string &tier);
static Json genC20(const std::string &prop, uint64_t seed, const std::string &tier) {
    if (seed % 3 == 2) return genC20Frame(seed, tier);          // frame clauses: twin sessions, one execution
    Rng r(Rng::mix(seed, "plan"));
    Json p = planSkeleton(prop, "mix", seed, r, 300);
    // force real interleaving: noise runs into every yield of the subject
    Json sc = Json::arr();
    for (int i = 0; i < 300; i++) sc.push((long)r.below(5));
    p.set("schedule", sc);
    Json al = p["alloc"]; al.set("placement", "random"); al.set("fill", "random"); p.set("alloc", al);
    Json ss = Json::arr();
    int noiseBefore = r.range(0, 2), noiseAfter = r.range(1, 3);
    for (int i = 0; i < noiseBefore; i++) ss.push(anySession(r, "quick", true));
    int subject = (int)ss.size();
    ss.push(anySession(r, tier, true));
    for (int i = 0; i < noiseAfter; i++) ss.push(anySession(r, "quick", true));
    p.set("sessions", ss);
    p.set("subject", subject);
    p.set("c20", true);
    return p;
}
static GenRegistrar gm1("C15", genC15), gm2("C20", genC20);

// ---------------------------------------------------------------- C20 frame clauses: twin router sessions
// B executes A's plan in another frame (translation by multiples of 2^-10, or one of the eight symmetries of the
// square) in the same world; translated scenes must give translated routes, symmetric scenes equal route costs.
static Pt applyFrame(const Json &fr, Pt p, bool linearOnly) {
    if (fr.str("kind", "") == "translate") { if (linearOnly) return p; return Pt{p.x + fr.num("dx", 0), p.y + fr.num("dy", 0)}; }
    int k = (int)fr.i("k", 0);
    double x = p.x, y = p.y;
    if (k & 4) std::swap(x, y);
    if (k & 1) x = -x;
    if (k & 2) y = -y;
    return Pt{x, y};
}
static bool frameFlips(const Json &fr) { if (fr.str("kind", "") == "translate") return false; int k = (int)fr.i("k", 0); return (((k >> 2) & 1) ^ (k & 1) ^ ((k >> 1) & 1)) != 0; }
static Json framePoly(const Json &fr, const Json &poly) {
    std::vector<Pt> v;
    for (auto &q : poly.a) v.push_back(applyFrame(fr, Pt{q[0].num(), q[1].num()}, false));
    if (frameFlips(fr)) std::reverse(v.begin(), v.end());
    Json out = Json::arr();
    for (auto &q : v) { Json e = Json::arr(); e.push(q.x); e.push(q.y); out.push(e); }
    return out;
}
static Json frameSession(const Json &a, const Json &fr, int twinOf) {
    Json b = a;
    Json cfg = a["cfg"]; Json tw = Json::obj(); tw.set("of", twinOf); tw.set("frame", fr); cfg.set("twin", tw); b.set("cfg", cfg);
    Json ops = Json::arr();
    for (auto &op : a["ops"].a) {
        Json o = op;
        std::string k = op.str("op", "");
        if (op.has("poly")) o.set("poly", framePoly(fr, op["poly"]));
        if (k == "moveShape") { Pt d = applyFrame(fr, Pt{op.num("dx", 0), op.num("dy", 0)}, true); o.set("dx", d.x); o.set("dy", d.y); }
        for (const char *ek : {"src", "dst", "end"}) if (op.has(ek) && op[ek].has("pt")) { Json e = op[ek]; Pt q = applyFrame(fr, Pt{e["pt"][0].num(), e["pt"][1].num()}, false); Json pj = Json::arr(); pj.push(q.x); pj.push(q.y); e.set("pt", pj);
            if (e.has("dirs") && fr.str("kind", "") != "translate") {
                // direction masks (Up 1, Down 2, Left 4, Right 8) go through the same linear map
                unsigned d = (unsigned)e.i("dirs", 15), nd = 0;
                const double vx[4] = {0, 0, -1, 1}, vy[4] = {-1, 1, 0, 0};
                for (int b = 0; b < 4; b++) if (d & (1u << b)) { Pt v = applyFrame(fr, Pt{vx[b], vy[b]}, true); nd |= v.y < 0 ? 1u : v.y > 0 ? 2u : v.x < 0 ? 4u : 8u; }
                e.set("dirs", (long)nd);
            }
            o.set(ek, e); }
        if (op.has("checkpoints")) { Json cp = Json::arr(); for (auto &q : op["checkpoints"].a) { Pt t = applyFrame(fr, Pt{q[0].num(), q[1].num()}, false); Json pj = Json::arr(); pj.push(t.x); pj.push(t.y); cp.push(pj); } o.set("checkpoints", cp); }
        ops.push(o);
    }
    b.set("ops", ops);
    return b;
}
static Json genC20Frame(uint64_t seed, const std::string &tier) {
    Rng r(Rng::mix(seed, "plan-frame"));
    Json p = planSkeleton("C20", "mix", seed, r, 300);
    RouterGenCfg g;
    g.ortho = r.chance(0.5);
    g.polygons = !g.ortho && r.chance(0.6);
    g.costOracles = false;
    g.params[P_segment] = g.ortho ? r.pick(std::vector<double>{10, 50}) : r.pick(std::vector<double>{0, 0, 10, 50});
    if (g.ortho) { g.params[P_nudgeDist] = r.pick(std::vector<double>{0, 4}); g.options[O_nudgeAttached] = false; }
    g.selective = true; g.invis = r.chance(0.8); g.lees = r.chance(0.7);
    g.styleExtra = "frame-twin";
    if (r.chance(0.5)) { g.edgePoints = 0.5; g.polygons = false; g.wMove = 0; g.wReshape = 0; g.wAdd = 30; g.wMoveEnd = 40; g.styleExtra = "frame-twin+end-points-on-shape-sides"; }   // end points exactly on shape sides (shapes stay put)
    if (g.ortho && r.chance(0.3)) { g.dirRestrict = true; g.styleExtra += "+direction-restricted-ends"; }      // the masks are mapped with the frame
    if (tier == "thorough") { g.maxShapes = 10; g.maxConns = 8; }
    Json a = genRouterSession(r, g);
    { Json cfg = a["cfg"]; Json tw = Json::obj(); tw.set("of", -1); cfg.set("twin", tw); a.set("cfg", cfg); }
    Json fr = Json::obj();
    if (r.chance(0.45)) { fr.set("kind", "translate"); fr.set("dx", (double)r.range(-40000, 40000) / 1024.0); fr.set("dy", (double)r.range(-40000, 40000) / 1024.0); }
    else { fr.set("kind", "sym"); fr.set("k", (long)r.range(1, 7)); }
    Json ss = Json::arr();
    ss.push(a);
    ss.push(frameSession(a, fr, 0));
    if (r.chance(0.4)) ss.push(genSolverSession(r, "quick"));
    p.set("sessions", ss);
    return p;
}
