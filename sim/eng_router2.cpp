// RouterSession part 2: connection pins, junction ends, checkpoints (C11) and
// the nudging oracle (C10).
#include "router_session.h"
#include "sigs.h"
#include "router_gen.h"
#include "mix_gen.h"

using namespace Avoid;
enum { P_segment = 0, P_angle, P_crossing, P_clusterCrossing, P_fixedShared, P_portDir, P_buffer, P_nudgeDist, P_reverse };
enum { O_nudgeAttached = 0, O_hyperMove, O_penaliseSharedEnds, O_nudgeTouching, O_unifying, O_hyperAddDel, O_nudgeCommonEnd };

static Polygon toAvoid(const Poly &p) { Polygon pg((int)p.size()); for (size_t i = 0; i < p.size(); i++) pg.ps[i] = Point(p[i].x, p[i].y); return pg; }

bool RouterSession::optNudgeAttached() { return options.count(O_nudgeAttached) ? options[O_nudgeAttached] : false; }

// ---- pins: harness-side model of where a pin is (written from the documentation of ShapeConnectionPin)
static Pt pinPos(const RouterSession::PinM &p, const Poly &poly) {
    RectB b = bbox(poly);
    Pt q;
    if (p.prop) {
        q.x = p.xo == 0 ? b.x + p.inside : p.xo == 1 ? b.x + b.w - p.inside : b.x + p.xo * b.w;
        q.y = p.yo == 0 ? b.y + p.inside : p.yo == 1 ? b.y + b.h - p.inside : b.y + p.yo * b.h;
    } else {
        q.x = p.xo == 0 ? b.x + p.inside : (p.xo == -1 || p.xo == b.w) ? b.x + b.w - p.inside : b.x + p.xo;
        q.y = p.yo == 0 ? b.y + p.inside : (p.yo == -1 || p.yo == b.h) ? b.y + b.h - p.inside : b.y + p.yo;
    }
    return q;
}

void RouterSession::addPins(Sh &sh, const Json &op) {
    for (auto &pj : op["pins"].a) {
        PinM p;
        p.cls = (int)pj.i("cls", 1); p.xo = pj.num("x", 0.5); p.yo = pj.num("y", 0.5); p.prop = pj.boolean("prop", true);
        p.inside = pj.num("inside", 0); p.dirs = (unsigned)pj.i("dirs", 15); p.excl = pj.boolean("excl", true);
        p.ref = new ShapeConnectionPin(sh.ref, (unsigned)p.cls, p.xo, p.yo, p.prop, p.inside, (ConnDirFlags)p.dirs);
        p.ref->setExclusive(p.excl);
        if (pj.has("cost")) p.ref->setConnectionCost(pj.num("cost", 0));
        sh.pins.push_back(p);
    }
}
void RouterSession::onReshape(Sh &, const Poly &, const Json &) {}
bool RouterSession::reshapeKeepsPinsApart(const Sh &sh, const Poly &np) {
    for (size_t a = 0; a < sh.pins.size(); a++) for (size_t b = a + 1; b < sh.pins.size(); b++) {
        Pt pa = pinPos(sh.pins[a], np), pb = pinPos(sh.pins[b], np);
        if (std::fabs(pa.x - pb.x) < 1e-9 && std::fabs(pa.y - pb.y) < 1e-9) return false;
    }
    return true;
}

bool RouterSession::extraOp(const Json &op, const std::string &o, std::string &ex, bool &edited) {
    auto guardedLocal = [&](const std::function<void()> &fn) -> std::string {
        try { LibScope ls; fn(); }
        catch (vpsc::CriticalFailure &f) { HarnessScope hs; return assertSig(f); }
        catch (std::exception &e) { return "std::exception"; }
        catch (...) { return "unknown-exception"; }
        return "";
    };
    if (o == "addJunction") {
        int k = (int)op["id"].i();
        if (junctions.count(k) && junctions[k].alive) return false;
        Jn j; j.pt = Pt{op["pt"][0].num(), op["pt"][1].num()}; j.alive = true;
        ex = guardedLocal([&] { j.ref = new JunctionRef(router, Point(j.pt.x, j.pt.y)); if (op.boolean("fixed", false)) j.ref->setPositionFixed(true); });
        j.fixed = op.boolean("fixed", false);
        junctions[k] = j; edited = true; addedJunctionsThisTxn.insert(k);
        return true;
    }
    if (o == "moveJunction") {
        int k = (int)op["id"].i();
        auto it = junctions.find(k);
        if (it == junctions.end() || !it->second.alive) return false;
        it->second.pt = Pt{op["pt"][0].num(), op["pt"][1].num()};
        ex = guardedLocal([&] { router->moveJunction(it->second.ref, Point(it->second.pt.x, it->second.pt.y)); });
        edited = true; probe("router.moveJunction");
        return true;
    }
    // ---- less common API (memory-safety worlds): clusters, fixed routes, crossing aversion
    if (o == "addCluster" || o == "moveCluster") {
        int k = (int)op["id"].i();
        Poly pl = polyFromJson(op["poly"]);
        if (pl.size() < 3) return false;
        if (o == "addCluster") {
            if (clusters.count(k) && clusters[k].alive) return false;
            Cl c; c.alive = true;
            ex = guardedLocal([&] { Polygon pg = toAvoid(pl); c.ref = new ClusterRef(router, pg); });
            clusters[k] = c; probe("router.addCluster");
        } else {
            auto it = clusters.find(k);
            if (it == clusters.end() || !it->second.alive || !it->second.ref) return false;
            ex = guardedLocal([&] { Polygon pg = toAvoid(pl); it->second.ref->setNewPoly(pg); });
            probe("router.moveCluster");
        }
        edited = true;
        return true;
    }
    if (o == "deleteCluster") {
        int k = (int)op["id"].i();
        auto it = clusters.find(k);
        if (it == clusters.end() || !it->second.alive || !it->second.ref) return false;
        it->second.alive = false;
        ex = guardedLocal([&] { router->deleteCluster(it->second.ref); });
        it->second.ref = nullptr; edited = true; probe("router.deleteCluster");
        return true;
    }
    if (o == "setCheckpoints") {
        // change or clear the checkpoints of a live connector (ConnRef::setRoutingCheckpoints a second time)
        int k = (int)op["id"].i();
        auto it = conns.find(k);
        if (it == conns.end() || !it->second.alive || it->second.hyperedge || !it->second.ref) return false;
        if (!useTransactions && armed("C11")) return false;      // runs no implicit transaction in immediate mode: nothing to judge (see addConn)
        Cn &c = it->second;
        c.setCheckpointsFrom(op["checkpoints"]);
        ex = guardedLocal([&] { std::vector<Checkpoint> cps = c.mkCheckpoints(); c.ref->setRoutingCheckpoints(cps); });
        // setRoutingCheckpoints() does not invalidate an existing route ("when routing, the connector will attempt to visit..."):
        // the new list is judged from the next time the connector is actually rerouted (it gets its callback)
        if (c.ref->route().size() >= 2) c.cpStale = true;
        edited = true; probe("router.setCheckpoints-on-live-connector");
        return true;
    }
    if (o == "fixRoute" || o == "clearFixedRoute" || o == "hateCrossings") {
        int k = (int)op["id"].i();
        auto it = conns.find(k);
        if (it == conns.end() || !it->second.alive || it->second.hyperedge || !it->second.ref) return false;
        Cn &c = it->second;
        if (o == "fixRoute") {
            // setFixedExistingRoute() needs a route: only for connectors that have been routed
            if (c.ref->route().size() < 2 || c.fixedRoute) return false;
            ex = guardedLocal([&] { c.ref->setFixedExistingRoute(); });
            c.fixedRoute = true; probe("router.fixRoute");
        } else if (o == "clearFixedRoute") {
            if (!c.fixedRoute) return false;
            ex = guardedLocal([&] { c.ref->clearFixedRoute(); });
            c.fixedRoute = false; probe("router.clearFixedRoute");
        } else {
            ex = guardedLocal([&] { c.ref->setHateCrossings(op.boolean("v", true)); });
            probe("router.hateCrossings");
        }
        edited = true;
        return true;
    }
    if (o == "transformPins") {
        // ShapeRef::transformConnectionPinPositions(): the client has rotated / flipped the shape and the pins follow.
        // Model written from the documentation of ShapeTransformationType (screen coordinates, y down):
        //   CW90 (x,y)->(1-y,x)  CW180 (x,y)->(1-x,1-y)  CW270 (x,y)->(y,1-x)  FlipX x->1-x  FlipY y->1-y, directions likewise.
        // Absolute-offset pins are only taken through the transforms that keep the bounding box (CW180, flips).
        int k = (int)op["id"].i(); int t = (int)op.i("t", 1);
        auto it = shapes.find(k);
        if (it == shapes.end() || !it->second.alive || it->second.pins.empty() || t < 0 || t > 4) return false;
        bool hasAbs = false; for (auto &pm : it->second.pins) if (!pm.prop) hasAbs = true;
        if (hasAbs && (t == 0 || t == 2)) return false;
        // absolute offsets are inverted against the polygon the router currently holds; with a resize of this shape still
        // queued in the same transaction the documentation does not say which box counts: not generated
        if (hasAbs && useTransactions && reshapedThisTxn.count(k)) return false;
        RectB b = bbox(it->second.poly);
        auto inv = [](double off, double len) { return off == 0 ? -1.0 : off == -1 ? 0.0 : len - off; };
        auto mapDirs = [t](unsigned d) -> unsigned {
            if (d == 15 || d == 0) return d;
            bool U = d & 1, D = d & 2, L = d & 4, R = d & 8, u, dn, l, r;
            switch (t) {
                case 0: r = U; dn = R; l = D; u = L; break;          // clockwise quarter turn: up -> right -> down -> left -> up
                case 1: u = D; dn = U; l = R; r = L; break;
                case 2: l = U; dn = L; r = D; u = R; break;          // three quarter turns: up -> left -> down -> right -> up
                case 3: u = U; dn = D; l = R; r = L; break;
                default: u = D; dn = U; l = L; r = R; break;
            }
            return (u ? 1u : 0u) | (dn ? 2u : 0u) | (l ? 4u : 0u) | (r ? 8u : 0u);
        };
        for (auto &pm : it->second.pins) {
            double x = pm.xo, y = pm.yo;
            if (pm.prop) {
                switch (t) { case 0: pm.xo = 1 - y; pm.yo = x; break; case 1: pm.xo = 1 - x; pm.yo = 1 - y; break; case 2: pm.xo = y; pm.yo = 1 - x; break; case 3: pm.xo = 1 - x; break; default: pm.yo = 1 - y; break; }
            } else {
                if (t == 1 || t == 3) pm.xo = inv(x, b.w);
                if (t == 1 || t == 4) pm.yo = inv(y, b.h);
            }
            pm.dirs = mapDirs(pm.dirs);
        }
        ex = guardedLocal([&] { it->second.ref->transformConnectionPinPositions((ShapeTransformationType)t); });
        edited = true; probe("router.transformPins");
        return true;
    }
    if (o == "deleteJunction") {
        int k = (int)op["id"].i();
        auto it = junctions.find(k);
        if (it == junctions.end() || !it->second.alive) return false;
        if (addedJunctionsThisTxn.count(k) && useTransactions) return false;      // documented precondition: no add+delete of one object in one transaction
        it->second.alive = false;
        for (auto &kv : conns) for (int e = 0; e < 2; e++) if (kv.second.alive && kv.second.e[e].kind == 2 && kv.second.e[e].junction == k) { kv.second.detachedByDelete = true; kv.second.e[e].kind = 3; }
        ex = guardedLocal([&] { router->deleteJunction(it->second.ref); });
        it->second.ref = nullptr;
        edited = true; probe("router.deleteJunction");
        return true;
    }
    return false;
}

// ---- C11: pins, junction ends, checkpoints
void RouterSession::checkPins(const char *when) {
    std::map<std::tuple<int, int, int>, int> pinUsers;     // (shape, cls, pin index) -> number of connector ends
    // KF-C11-a: a pin lying exactly on its shape's boundary (insideOffset 0) upsets visibility around that shape, also for other pins
    bool sceneZero = false;
    for (auto &sk : shapes) if (sk.second.alive) for (auto &pm : sk.second.pins) {
        bool boundary = pm.prop ? (pm.xo == 0 || pm.xo == 1 || pm.yo == 0 || pm.yo == 1) : true;
        if (boundary && pm.inside == 0) sceneZero = true;
    }
    const std::string z0 = sceneZero ? ":scene-has-boundary-pin-with-insideOffset-0" : "";
    for (auto &kv : conns) {
        Cn &c = kv.second;
        if (!c.alive || c.hyperedge) continue;
        bool any = c.e[0].kind != 0 || c.e[1].kind != 0 || !c.checkpoints.empty();
        if (!any) continue;
        {   // valid arguments only: a checkpoint inside an obstacle is "skipped" by the library (connector.h) and what the rest of
            // the route then looks like is not documented; a checkpoint on one of the connector's own free end points is degenerate
            bool bad = false; double bufd = params.count(P_buffer) ? params[P_buffer] : 0;
            for (auto &cp : c.checkpoints) {
                for (auto &sk2 : shapes) if (sk2.second.alive) { RectB b2 = bbox(sk2.second.poly); if (cp.x >= b2.x - bufd - 1e-9 && cp.x <= b2.x + b2.w + bufd + 1e-9 && cp.y >= b2.y - bufd - 1e-9 && cp.y <= b2.y + b2.h + bufd + 1e-9) bad = true; }
                for (auto &jk : junctions) if (jk.second.alive && std::fabs(jk.second.pt.x - cp.x) <= 1 + bufd && std::fabs(jk.second.pt.y - cp.y) <= 1 + bufd) bad = true;
                for (int e = 0; e < 2; e++) if (c.e[e].kind == 0 && samePt(c.e[e].pt, cp)) bad = true;
            }
            if (bad) { probe("router.checkpoint-inside-an-obstacle-or-on-an-end-point-connector-not-judged"); continue; }
        }
        {   // a shape this connector is pinned to touches (or is closer than twice the buffer to) another shape: the pin's way out may be
            // walled in and the router then falls back to a straight line from the shape's centre.  Such scenes are not generated on
            // purpose (they arise when an edit of the plan was refused by the executor and a later one moved a shape up against it)
            bool walled = false; double bufd = params.count(P_buffer) ? params[P_buffer] : 0;
            for (int e = 0; e < 2 && !walled; e++) if (c.e[e].kind == 1 && shapes.count(c.e[e].shape) && shapes[c.e[e].shape].alive) {
                RectB a = bbox(shapes[c.e[e].shape].poly);
                for (auto &sk2 : shapes) if (sk2.second.alive && sk2.first != c.e[e].shape) {
                    RectB b2 = bbox(sk2.second.poly); double g = 2 * bufd + 1e-9;
                    if (a.x <= b2.x + b2.w + g && b2.x <= a.x + a.w + g && a.y <= b2.y + b2.h + g && b2.y <= a.y + a.h + g) walled = true;
                }
            }
            if (walled) { probe("router.pinned-shape-touches-another-shape-connector-not-judged"); continue; }
        }
        std::vector<Pt> d = routePts(c.ref->displayRoute());
        if (d.size() < 2) { violate("C11", "route", "route-too-short", fmt("conn %d after %s", kv.first, when)); continue; }
        // the route's two ends, matched to the model's two attachments as an unordered pair
        for (int e = 0; e < 2; e++) {
            const End &ce = c.e[e];
            if (ce.kind == 3) continue;
            Pt p = e ? d.back() : d.front(), q = e ? d[d.size() - 2] : d[1];
            if (ce.kind == 2) {
                // connectors that take part in a hyperedge (junction ends) may have their route stored in the reverse direction:
                // route ends are matched to the two attachments as an unordered pair
                {
                    Jn &jj = junctions[ce.junction];
                    Avoid::Point rc = jj.ref ? jj.ref->recommendedPosition() : Avoid::Point(jj.pt.x, jj.pt.y);
                    auto at = [&](Pt u) { return (std::fabs(u.x - jj.pt.x) < 1e-9 && std::fabs(u.y - jj.pt.y) < 1e-9) || (std::fabs(u.x - rc.x) < 1e-9 && std::fabs(u.y - rc.y) < 1e-9); };
                    Pt other = e ? d.front() : d.back();
                    if (!at(p) && at(other)) p = other;
                }
                Jn &j = junctions[ce.junction];
                // with improveHyperedgeRoutesMovingJunctions (on by default) the router routes to the position it recommends for a
                // free junction and leaves moving the junction itself to the client (router.h:192-210)
                bool improver = options.count(O_hyperMove) ? options[O_hyperMove] : true;
                Avoid::Point rec = j.ref ? j.ref->recommendedPosition() : Avoid::Point(j.pt.x, j.pt.y);
                bool atRecommended = improver && !j.fixed && std::fabs(p.x - rec.x) < 1e-9 && std::fabs(p.y - rec.y) < 1e-9;
                if (atRecommended && (std::fabs(p.x - j.pt.x) > 1e-9 || std::fabs(p.y - j.pt.y) > 1e-9)) { probe("router.junction-end-at-recommended-position"); continue; }
                if (std::fabs(p.x - j.pt.x) > 1e-9 || std::fabs(p.y - j.pt.y) > 1e-9) violate("C11", "junction-end", "end-not-at-junction-position" + z0, fmt("conn %d end %d at (%g,%g), junction %d at (%g,%g) after %s", kv.first, e, p.x, p.y, ce.junction, j.pt.x, j.pt.y, when));
                else probe("router.junction-end-checked");
                continue;
            }
            if (ce.kind != 1) continue;
            Sh &sh = shapes[ce.shape];
            int found = -1; bool zeroInside = false;
            for (size_t pi = 0; pi < sh.pins.size(); pi++) {
                if (sh.pins[pi].cls != ce.cls) continue;
                bool boundary = sh.pins[pi].prop ? (sh.pins[pi].xo == 0 || sh.pins[pi].xo == 1 || sh.pins[pi].yo == 0 || sh.pins[pi].yo == 1) : true;
                if (boundary && sh.pins[pi].inside == 0) zeroInside = true;
                Pt pp = pinPos(sh.pins[pi], sh.poly);
                if (std::fabs(pp.x - p.x) < 1e-9 && std::fabs(pp.y - p.y) < 1e-9) { found = (int)pi; break; }
            }
            std::string rt; for (auto &qq : d) rt += fmt("(%g,%g)", qq.x, qq.y);
            std::string ctx = fmt("conn %d end %d at (%g,%g), shape %d class %d after %s (%s); route %s;%s", kv.first, e, p.x, p.y, ce.shape, ce.cls, when, ortho ? "ortho" : "poly", rt.c_str(), describeScene().c_str());
            if (found < 0) {
                // classifier: the route visits the pin and then ends at the connector's last checkpoint
                std::string cpcls;
                if (!c.checkpoints.empty() && std::fabs(p.x - c.checkpoints.back().x) < 1e-9 && std::fabs(p.y - c.checkpoints.back().y) < 1e-9) cpcls = ":route-ends-at-its-last-checkpoint";
                if (!c.checkpoints.empty() && std::fabs(p.x - c.checkpoints.front().x) < 1e-9 && std::fabs(p.y - c.checkpoints.front().y) < 1e-9) cpcls = ":route-ends-at-its-last-checkpoint";
                violate("C11", "pin-position", "end-not-on-a-pin-of-its-class" + cpcls + z0, ctx);
                continue;
            }
            probe("router.pin-end-checked");
            pinUsers[std::make_tuple(ce.shape, ce.cls, found)]++;
            const PinM &pm = sh.pins[found];
            // ConnDirNone = "use the default for the pin's position": the side it sits on, all directions for interior pins
            unsigned effDirs = pm.dirs;
            if (effDirs == 0 && pm.prop) { if (pm.xo == 0) effDirs |= 4; else if (pm.xo == 1) effDirs |= 8; if (pm.yo == 0) effDirs |= 1; else if (pm.yo == 1) effDirs |= 2; if (effDirs == 0) effDirs = 15; }
            if (ortho && effDirs != 15 && effDirs != 0) {
                bool up = q.y < p.y && q.x == p.x, down = q.y > p.y && q.x == p.x, left = q.x < p.x && q.y == p.y, right = q.x > p.x && q.y == p.y;
                bool ok = ((effDirs & 1) && up) || ((effDirs & 2) && down) || ((effDirs & 4) && left) || ((effDirs & 8) && right);
                bool boundary0 = pm.inside == 0;
                if (!ok) violate("C11", "pin-direction", "leaves-pin-in-forbidden-direction" + z0, fmt("(%g,%g)->(%g,%g) dirs %u (given %u); %s", p.x, p.y, q.x, q.y, effDirs, pm.dirs, ctx.c_str()));
            }
        }
        // checkpoints in order on route()
        if (c.cpStale && callbacks[kv.first] != cbSeen[kv.first]) c.cpStale = false;
        if (!c.checkpoints.empty() && c.cpStale) probe("router.checkpoints-changed-route-not-yet-recomputed");
        if (!c.checkpoints.empty() && !c.cpStale) {
            std::vector<Pt> r = routePts(c.ref->route());
            size_t pos = 0; bool ok = true; size_t missing = 0;
            for (size_t ci = 0; ci < c.checkpoints.size() && ok; ci++) {
                Pt cp = c.checkpoints[ci];
                // "If a checkpoint is unreachable because it lies inside an obstacle, then that checkpoint will be skipped" (connector.h):
                // shapes (with their buffer) and the small rectangles of junctions are obstacles
                bool inObstacle = false;
                double bufd = params.count(P_buffer) ? params[P_buffer] : 0;
                for (auto &sk2 : shapes) if (sk2.second.alive) { RectB b2 = bbox(sk2.second.poly); if (cp.x >= b2.x - bufd - 1e-9 && cp.x <= b2.x + b2.w + bufd + 1e-9 && cp.y >= b2.y - bufd - 1e-9 && cp.y <= b2.y + b2.h + bufd + 1e-9) inObstacle = true; }
                for (auto &jk : junctions) if (jk.second.alive && std::fabs(jk.second.pt.x - cp.x) <= 1 + bufd && std::fabs(jk.second.pt.y - cp.y) <= 1 + bufd) inObstacle = true;
                // (what becomes of the remaining checkpoints of such a connector is not documented: the connector is not judged)
                if (inObstacle) { probe("router.checkpoint-inside-an-obstacle-connector-not-judged"); ok = true; pos = 0; break; }
                bool hit = false;
                for (size_t i = pos; i + 1 < r.size() && !hit; i++) if (ptSegDist(cp, r[i], r[i + 1]) < 1e-9) { hit = true; pos = i; }
                if (!hit) { ok = false; missing = ci; }
            }
            if (!ok && !c.detachedByDelete) violate("C11", "checkpoints", "checkpoint-not-visited-in-order" + z0, fmt("conn %d checkpoint %zu (%g,%g) after %s;%s", kv.first, missing, c.checkpoints[missing].x, c.checkpoints[missing].y, when, describeScene().c_str()));
            else probe("router.checkpoints-checked");
        }
    }
    for (auto &kv : pinUsers) {
        Sh &sh = shapes[std::get<0>(kv.first)];
        const PinM &pm = sh.pins[std::get<2>(kv.first)];
        if (pm.excl && kv.second > 1) violate("C11", "exclusive", "exclusive-pin-used-by-several-connectors" + z0, fmt("shape %d class %d pin %d used %d times after %s", std::get<0>(kv.first), pm.cls, std::get<2>(kv.first), kv.second, when));
    }
    // library-side bookkeeping of exclusive pins (private state)
    for (auto &sk : shapes) if (sk.second.alive) for (auto &pm : sk.second.pins) if (pm.excl && pm.ref && pm.ref->m_connend_users.size() > 1)
        violate("C11", "exclusive", "exclusive-pin-has-several-users-internally" + z0, fmt("shape %d class %d: %zu users after %s", sk.first, pm.cls, pm.ref->m_connend_users.size(), when));
}

// ---- C10: nudging
void RouterSession::checkNudging(const char *when) {
    if (!ortho) return;
    double nd = params.count(P_nudgeDist) ? params[P_nudgeDist] : 4.0;
    if (nd <= 0) return;
    bool attached = optNudgeAttached();
    std::vector<int> ids; for (auto &kv : conns) if (kv.second.alive && !kv.second.hyperedge) ids.push_back(kv.first);
    int m = (int)ids.size();
    std::vector<std::vector<Pt>> disp(m), raw(m);
    std::vector<RectB> boxes; double buf = params.count(P_buffer) ? params[P_buffer] : 0;
    for (auto &sk : shapes) if (sk.second.alive) { RectB b = bbox(sk.second.poly); boxes.push_back(RectB{b.x - buf, b.y - buf, b.w + 2 * buf, b.h + 2 * buf}); }
    for (int i = 0; i < m; i++) {
        Cn &c = conns[ids[i]];
        disp[i] = routePts(c.ref->displayRoute());
        raw[i] = simplifyRoute(routePts(c.ref->route()));
        if (disp[i].size() < 2) continue;
        bool free2 = c.e[0].kind == 0 && c.e[1].kind == 0;
        if (!attached && free2 && !(samePt(disp[i].front(), c.e[0].pt) && samePt(disp[i].back(), c.e[1].pt)) && !(samePt(disp[i].front(), c.e[1].pt) && samePt(disp[i].back(), c.e[0].pt)))
            violate("C10", "endpoints", "nudging-moved-an-endpoint", fmt("conn %d after %s: (%g,%g)..(%g,%g)", ids[i], when, disp[i].front().x, disp[i].front().y, disp[i].back().x, disp[i].back().y));
        if (disp[i].size() > raw[i].size() && raw[i].size() >= 2 && c.checkpoints.empty())
            violate("C10", "segments", "nudging-added-segments", fmt("conn %d after %s: %zu > %zu points", ids[i], when, disp[i].size(), raw[i].size()));
        for (auto &cp : c.checkpoints) {
            bool on = false;
            for (size_t k = 1; k < disp[i].size() && !on; k++) if (ptSegDist(cp, disp[i][k - 1], disp[i][k]) < 1e-6) on = true;
            bool onRaw = false;
            for (size_t k = 1; k < raw[i].size() && !onRaw; k++) if (ptSegDist(cp, raw[i][k - 1], raw[i][k]) < 1e-6) onRaw = true;
            // class: the raw route runs back over itself (a 180-degree turn: it overshoots the checkpoint and returns through it), which
            // nudging/simplification then removes together with the visit -- seen when pass-through arrival/departure masks are given for a
            // vertical pass
            bool doublesBack = false;
            for (size_t k = 2; k < raw[i].size(); k++) { Pt u{raw[i][k - 1].x - raw[i][k - 2].x, raw[i][k - 1].y - raw[i][k - 2].y}, v{raw[i][k].x - raw[i][k - 1].x, raw[i][k].y - raw[i][k - 1].y}; if (u.x * v.y - u.y * v.x == 0 && u.x * v.x + u.y * v.y < 0) doublesBack = true; }
            if (!on && onRaw && !c.detachedByDelete) violate("C10", "checkpoints", std::string("nudging-moved-route-off-a-checkpoint") + (attached ? ":end-segments-may-be-nudged" : "") + (doublesBack ? ":raw-route-doubles-back-on-itself" : ""), fmt("conn %d checkpoint (%g,%g) after %s", ids[i], cp.x, cp.y, when));
        }
    }
    auto coord = [](Pt p, int dim) { return dim ? p.y : p.x; };
    bool pinEndsJudged = spec["cfg"].str("style", "").find("staircases") != std::string::npos;
    if (getenv("ADAPTASIM_DUMP_ROUTES")) for (int i = 0; i < m; i++) { std::string a, b; for (auto &q : raw[i]) a += fmt("(%g,%g)", q.x, q.y); for (auto &q : disp[i]) b += fmt("(%g,%g)", q.x, q.y); fprintf(stderr, "conn %d raw %s displayed %s\n", ids[i], a.c_str(), b.c_str()); }
    for (int i = 0; i < m; i++) for (int j = i + 1; j < m; j++) {
        Cn &ci = conns[ids[i]], &cj = conns[ids[j]];
        // (the staircase scenes end every connector on a pin of its own little shape; such an end is as fixed as a free point, and its
        //  position is where the raw route ends)
        if (pinEndsJudged) for (Cn *cc : {&ci, &cj}) { const std::vector<Pt> &rr = cc == &ci ? raw[i] : raw[j]; if (rr.size() >= 2) for (int ee = 0; ee < 2; ee++) if (cc->e[ee].kind == 1) cc->e[ee].pt = ee ? rr.back() : rr.front(); }
        auto fixedEnd = [&](const End &e) { return e.kind == 0 || (pinEndsJudged && e.kind == 1); };
        if (!fixedEnd(ci.e[0]) || !fixedEnd(ci.e[1]) || !fixedEnd(cj.e[0]) || !fixedEnd(cj.e[1])) continue;
        bool common = false;
        for (int a = 0; a < 2; a++) for (int b = 0; b < 2; b++) if (samePt(ci.e[a].pt, cj.e[b].pt)) common = true;
        if (common) continue;
        // with nudgeSharedPathsWithCommonEndPoint off, a shared path that terminates at an end point of one of the two
        // connectors (the end point lies on the other's route) is left overlapping by design
        // (measured: judging such pairs instead gives 5.7 % violating scenes on the unchanged tree -- the library treats an end point lying
        //  on the other connector's route like a common end point, in an order-dependent way; left unjudged as an ambiguity of the option)
        bool commonEndOpt = options.count(O_nudgeCommonEnd) ? options[O_nudgeCommonEnd] : true;
        if (!commonEndOpt) {
            bool endOnOther = false;
            for (int a = 0; a < 2; a++) {
                for (size_t k = 1; k < raw[j].size(); k++) if (ptSegDist(ci.e[a].pt, raw[j][k - 1], raw[j][k]) < 1e-9) endOnOther = true;
                for (size_t k = 1; k < raw[i].size(); k++) if (ptSegDist(cj.e[a].pt, raw[i][k - 1], raw[i][k]) < 1e-9) endOnOther = true;
            }
            if (endOnOther) { probe("router.c10-shared-path-ends-at-an-endpoint-option-off"); continue; }
        }
        const std::vector<Pt> &A = disp[i], &B = disp[j];
        for (size_t p = 1; p < A.size(); p++) for (size_t q = 1; q < B.size(); q++) {
            Pt a0 = A[p - 1], a1 = A[p], b0 = B[q - 1], b1 = B[q];
            for (int dim = 0; dim < 2; dim++) {
                int o = 1 - dim;
                if (!(coord(a0, dim) == coord(a1, dim) && coord(b0, dim) == coord(b1, dim) && coord(a0, o) != coord(a1, o) && coord(b0, o) != coord(b1, o))) continue;
                double lo = std::max(std::min(coord(a0, o), coord(a1, o)), std::min(coord(b0, o), coord(b1, o))), hi = std::min(std::max(coord(a0, o), coord(a1, o)), std::max(coord(b0, o), coord(b1, o)));
                if (hi - lo <= 1e-9) continue;
                double sep = std::fabs(coord(a0, dim) - coord(b0, dim));
                bool aEnd = p == 1 || p == A.size() - 1, bEnd = q == 1 || q == B.size() - 1;
                // a segment that carries one of its connector's checkpoints is as immovable as an end segment
                for (auto &cpt : ci.checkpoints) if (ptSegDist(cpt, a0, a1) < 1e-6) aEnd = true;
                for (auto &cpt : cj.checkpoints) if (ptSegDist(cpt, b0, b1) < 1e-6) bEnd = true;
                // was this pair a shared path in the raw routes?
                bool rawShared = false, rawKnown = raw[i].size() == A.size() && raw[j].size() == B.size();
                double rawC = 1e300, rawLo = 0, rawHi = 0;      // the shared stretch in the raw routes
                if (rawKnown) {
                    Pt ra0 = raw[i][p - 1], ra1 = raw[i][p], rb0 = raw[j][q - 1], rb1 = raw[j][q];
                    if (coord(ra0, dim) == coord(ra1, dim) && coord(rb0, dim) == coord(rb1, dim) && coord(ra0, dim) == coord(rb0, dim)) {
                        double rlo = std::max(std::min(coord(ra0, o), coord(ra1, o)), std::min(coord(rb0, o), coord(rb1, o))), rhi = std::min(std::max(coord(ra0, o), coord(ra1, o)), std::max(coord(rb0, o), coord(rb1, o)));
                        if (rhi - rlo > 1e-9) { rawShared = true; rawC = coord(ra0, dim); rawLo = rlo; rawHi = rhi; }
                    }
                }
                if (sep < 1e-6) {
                    if (aEnd && bEnd) {
                        // two end segments cannot be separated (both fixed) -- but they must not be MADE to overlap either: when the raw routes
                        // merely touched there (or did not meet at all) the stretch is the work of nudging, which pushed two bends past each other
                        if (rawKnown && !rawShared && ci.checkpoints.empty() && cj.checkpoints.empty() && (p == 1 || p == A.size() - 1) && (q == 1 || q == B.size() - 1) && !optNudgeAttached()) {
                            probe("router.c10-end-segments-overlap-created-by-nudging");
                            auto rt = [](const std::vector<Pt> &v) { std::string t; for (auto &qq : v) t += fmt("(%g,%g)", qq.x, qq.y); return t; };
                            // how the two end segments lay in the raw routes: on one line with a gap between them (an interior segment was then shifted
                            // across the gap, lengthening its connector's end segment), on one line touching end to end, or on different lines
                            std::string how = ":raw-end-segments-on-different-lines";
                            { Pt ra0 = raw[i][p - 1], ra1 = raw[i][p], rb0 = raw[j][q - 1], rb1 = raw[j][q];
                              if (coord(ra0, dim) == coord(ra1, dim) && coord(rb0, dim) == coord(rb1, dim) && coord(ra0, dim) == coord(rb0, dim)) {
                                  double rlo = std::max(std::min(coord(ra0, o), coord(ra1, o)), std::min(coord(rb0, o), coord(rb1, o))), rhi = std::min(std::max(coord(ra0, o), coord(ra1, o)), std::max(coord(rb0, o), coord(rb1, o)));
                                  how = rlo - rhi > 1e-9 ? ":raw-end-segments-a-gap-apart" : ":raw-end-segments-touching-end-to-end";
                                  if (rlo - rhi <= 1e-9) {
                                      // the touch point is an end point of one of the two connectors (it ends on the other's route), or a bend of both
                                      Pt T = dim ? Pt{rlo, coord(ra0, dim)} : Pt{coord(ra0, dim), rlo};
                                      bool endThere = false;
                                      for (int ee = 0; ee < 2; ee++) if (samePt(ci.e[ee].pt, T) || samePt(cj.e[ee].pt, T)) endThere = true;
                                      how += endThere ? ":at-an-end-point-of-one-of-them" : ":at-a-bend-of-both";
                                      if (!endThere) {
                                          // do the two share a path (of positive length) anywhere in the raw routes?  Separating that path is then what
                                          // lengthened an end segment; without one the two staircases merely touched
                                          bool sharePath = false;
                                          for (size_t u = 1; u < raw[i].size(); u++) for (size_t v = 1; v < raw[j].size(); v++) for (int d2 = 0; d2 < 2; d2++) {
                                              Pt u0 = raw[i][u - 1], u1 = raw[i][u], v0 = raw[j][v - 1], v1 = raw[j][v]; int o2 = 1 - d2;
                                              if (!(coord(u0, d2) == coord(u1, d2) && coord(v0, d2) == coord(v1, d2) && coord(u0, d2) == coord(v0, d2))) continue;
                                              double l2 = std::max(std::min(coord(u0, o2), coord(u1, o2)), std::min(coord(v0, o2), coord(v1, o2))), h2 = std::min(std::max(coord(u0, o2), coord(u1, o2)), std::max(coord(v0, o2), coord(v1, o2)));
                                              if (h2 - l2 > 1e-9) sharePath = true;
                                          }
                                          how += sharePath ? ":the-two-share-a-path-elsewhere" : ":the-two-only-touch";
                                      }
                                  }
                              } }
                            violate("C10", "separated", "collinear-overlap-created-between-two-end-segments" + how, fmt("conns %d,%d overlap on %c=%g over %g (nudging distance %g) after %s; raw %s | %s; displayed %s | %s;%s", ids[i], ids[j], dim ? 'y' : 'x', coord(a0, dim), hi - lo, nd, when, rt(raw[i]).c_str(), rt(raw[j]).c_str(), rt(A).c_str(), rt(B).c_str(), describeScene().c_str()));
                        }
                        continue;
                    }
                    double c0 = coord(a0, dim);
                    auto wide = [&](Pt s0, Pt s1) {
                        // free channel around the WHOLE interior segment, on both sides
                        double elo = std::min(coord(s0, o), coord(s1, o)), ehi = std::max(coord(s0, o), coord(s1, o));
                        double fl = 1e9, fh = 1e9;
                        for (auto &bx : boxes) {
                            double olo = o ? bx.y : bx.x, ohi = o ? bx.y + bx.h : bx.x + bx.w;
                            double plo = dim ? bx.y : bx.x, phi = dim ? bx.y + bx.h : bx.x + bx.w;
                            if (ohi < elo || olo > ehi) continue;
                            if (phi <= c0) fl = std::min(fl, c0 - phi); else if (plo >= c0) fh = std::min(fh, plo - c0); else { fl = 0; fh = 0; }
                        }
                        return fl > 0 && fh > 0 && std::min(fl, fh) >= (m + 1) * nd;
                    };
                    // every interior segment of the pair must have room on both sides over its whole extent: an interior segment
                    // that runs along a shape edge somewhere is as immovable as an end segment
                    bool w = (aEnd || wide(a0, a1)) && (bEnd || wide(b0, b1));
                    // weaker precondition: an interior segment that sits on one limit of its channel (hugs a shape edge) but has the
                    // room on its other side could still be moved away from the partner
                    auto oneSide = [&](Pt s0, Pt s1) {
                        double elo = std::min(coord(s0, o), coord(s1, o)), ehi = std::max(coord(s0, o), coord(s1, o));
                        double fl = 1e9, fh = 1e9;
                        for (auto &bx : boxes) {
                            double olo = o ? bx.y : bx.x, ohi = o ? bx.y + bx.h : bx.x + bx.w;
                            double plo = dim ? bx.y : bx.x, phi = dim ? bx.y + bx.h : bx.x + bx.w;
                            if (ohi < elo || olo > ehi) continue;
                            if (phi <= c0) fl = std::min(fl, c0 - phi); else if (plo >= c0) fh = std::min(fh, plo - c0); else { fl = 0; fh = 0; }
                        }
                        return std::max(fl, fh) >= (m + 1) * nd;
                    };
                    bool w1 = (aEnd || oneSide(a0, a1)) && (bEnd || oneSide(b0, b1));
                    if (!w && !w1) { probe("router.c10-overlap-in-narrow-channel-not-judged"); continue; }
                    std::string sig = w ? "collinear-overlap-left-in-wide-channel" : "collinear-overlap-left:interior-segment-on-its-channel-limit";
                    if (rawKnown && !rawShared) sig += ":overlap-absent-from-raw-routes";
                    else {
                        // classifier (KF-C10-c): the overlapping stretch ends at an end point of one connector that lies in the interior of
                        // the other connector's segment (its end segment runs into the other connector's path)
                        bool endOn = false;
                        for (int ee = 0; ee < 2; ee++) {
                            if (ptSegDist(ci.e[ee].pt, b0, b1) < 1e-9 && !samePt(ci.e[ee].pt, b0) && !samePt(ci.e[ee].pt, b1)) endOn = true;
                            if (ptSegDist(cj.e[ee].pt, a0, a1) < 1e-9 && !samePt(cj.e[ee].pt, a0) && !samePt(cj.e[ee].pt, a1)) endOn = true;
                        }
                        if (endOn) sig += ":an-end-point-lies-inside-the-partner-segment";
                        else {
                            // classifier (KF-C10-d): the end point of a THIRD connector lies on the overlapping stretch (its fixed end
                            // segment occupies the line the two were centred on)
                            bool third = false;
                            for (int t = 0; t < m && !third; t++) if (t != i && t != j) for (int ee = 0; ee < 2; ee++) {
                                Pt q = conns[ids[t]].e[ee].pt;
                                // (anywhere along either of the two segments, not only where they overlap: the third connector's end segment runs from there)
                                double ulo = std::min(std::min(coord(a0, o), coord(a1, o)), std::min(coord(b0, o), coord(b1, o))), uhi = std::max(std::max(coord(a0, o), coord(a1, o)), std::max(coord(b0, o), coord(b1, o)));
                                if (conns[ids[t]].e[ee].kind == 0 && std::fabs(coord(q, dim) - c0) < 2e-6 && coord(q, o) >= ulo - 1e-9 && coord(q, o) <= uhi + 1e-9) third = true;      // same tolerance as "collinear"
                                // ... or on the stretch the two shared in their raw routes (with end segments nudgeable the whole bundle, the
                                // third connector's end segment included, may since have been shifted as one: x=230 -> 230.871)
                                if (conns[ids[t]].e[ee].kind == 0 && rawShared && std::fabs(coord(q, dim) - rawC) < 2e-6 && coord(q, o) >= rawLo - 1e-9 && coord(q, o) <= rawHi + 1e-9) third = true;
                            }
                            if (third) sig += ":a-third-connectors-end-point-lies-on-the-shared-line";
                            else if (!ci.checkpoints.empty() || !cj.checkpoints.empty()) sig += ":a-connector-of-the-pair-has-checkpoints";      // KF-C10-g
                            // classifier (KF-C10-l): the stretch the two shared in the raw routes was shifted as a whole (centred in its
                            // channel) and the two were left on top of each other on the new line
                            else if (rawShared && std::fabs(c0 - rawC) > 1e-6) sig += ":the-shared-stretch-was-shifted-as-a-whole";
                            // (KF-C10-m) ... or was left exactly where the raw routes had it although one of the two segments is interior
                            else if (rawShared) sig += ":the-shared-stretch-stayed-on-its-raw-line";
                        }
                    }      // created by the centring / unifying pre-processing, then not removed
                    std::string ra, rb; for (auto &qq : raw[i]) ra += fmt("(%g,%g)", qq.x, qq.y); for (auto &qq : raw[j]) rb += fmt("(%g,%g)", qq.x, qq.y);
                    std::string da, db; for (auto &qq : A) da += fmt("(%g,%g)", qq.x, qq.y); for (auto &qq : B) db += fmt("(%g,%g)", qq.x, qq.y);
                    violate("C10", "separated", sig, fmt("conns %d,%d overlap on %s=%g over %g (nudging distance %g, options attached=%d, shared in raw routes: %s) after %s; raw %s | %s; displayed %s | %s;%s", ids[i], ids[j], dim ? "y" : "x", c0, hi - lo, nd, (int)attached, rawKnown ? (rawShared ? "yes" : "no") : "unknown", when, ra.c_str(), rb.c_str(), da.c_str(), db.c_str(), describeScene().c_str()));
                    return;
                } else if (rawShared) {
                    probe("router.c10-shared-path-separated");
                    // in a channel with room for every connector of the scene on both sides of the shared path nothing justifies a
                    // reduced distance: "at least the nudging distance apart"
                    if (sep < nd - 1e-6 && !aEnd && !bEnd) {
                        double c0 = coord(raw[i][p - 1], dim);
                        auto room = [&](Pt s0, Pt s1) {
                            double elo = std::min(coord(s0, o), coord(s1, o)), ehi = std::max(coord(s0, o), coord(s1, o));
                            double fl = 1e9, fh = 1e9;
                            for (auto &bx : boxes) {
                                double olo = o ? bx.y : bx.x, ohi = o ? bx.y + bx.h : bx.x + bx.w;
                                double plo = dim ? bx.y : bx.x, phi = dim ? bx.y + bx.h : bx.x + bx.w;
                                if (ohi < elo || olo > ehi) continue;
                                if (phi <= c0) fl = std::min(fl, c0 - phi); else if (plo >= c0) fh = std::min(fh, plo - c0); else { fl = 0; fh = 0; }
                            }
                            return std::min(fl, fh) >= (m + 1) * nd;
                        };
                        if (room(a0, a1) && room(b0, b1)) { violate("C10", "min-distance", "separated-by-less-than-the-nudging-distance-in-a-wide-channel", fmt("conns %d,%d: %g < %g on %s after %s;%s", ids[i], ids[j], sep, nd, dim ? "y" : "x", when, describeScene().c_str())); return; }
                    }
                    if (sep < nd / 10 - 1e-6) { violate("C10", "min-distance", "separated-by-less-than-the-reduced-nudging-distance", fmt("conns %d,%d: %g < %g/10 after %s", ids[i], ids[j], sep, nd, when)); return; }
                }
            }
        }
    }
    probe("router.c10-evaluated");
}

void RouterSession::extraChecks(const char *when) {
    if (armed("C11")) checkPins(when);
    if (armed("C10")) checkNudging(when);
}

// =================================================================== generators
static Json ptJ(Pt p) { Json a = Json::arr(); a.push(p.x); a.push(p.y); return a; }

// pins for a newly generated rectangular shape
static void genPins(SceneGen &sg, int id, Json &o, bool allowZeroInside) {
    Rng &r = sg.r;
    SceneGen::GS &s = sg.shapes[id];
    if (!s.rect || !r.chance(0.85)) return;
    Json pins = Json::arr();
    double inside = allowZeroInside && r.chance(0.5) ? 0.0 : (double)r.range(1, 5);
    auto add = [&](int cls, double x, double y, bool prop, double ins, long dirs, bool excl) {
        Json p = Json::obj(); p.set("cls", cls); p.set("x", x); p.set("y", y); p.set("prop", prop); p.set("inside", ins); p.set("dirs", dirs); p.set("excl", excl);
        if (r.chance(0.2)) p.set("cost", (double)r.range(0, 50));
        pins.push(p); s.pins.push_back(p);
    };
    // class 1: four side pins (exclusive), class 2: shared centre pin, class 3: one extra boundary pin with a quarter offset or absolute offset
    int dmode = (int)r.below(10);
    bool sidesAll = dmode < 3, sidesDefault = dmode >= 3 && dmode < 5;      // all directions; ConnDirNone = the default for the side the pin sits on; explicit
    add(1, 0, 0.5, true, inside, sidesAll ? 15 : sidesDefault ? 0 : 4, true);
    add(1, 1, 0.5, true, inside, sidesAll ? 15 : sidesDefault ? 0 : 8, true);
    add(1, 0.5, 0, true, inside, sidesAll ? 15 : sidesDefault ? 0 : 1, true);
    add(1, 0.5, 1, true, inside, sidesAll ? 15 : sidesDefault ? 0 : 2, true);
    add(2, 0.5, 0.5, true, 0, 15, false);
    if (r.chance(0.5)) add(3, r.pick(std::vector<double>{0.25, 0.75}), 0, true, inside, r.chance(0.5) ? 1 : 15, r.chance(0.7));
    else {
        // absolute: right edge, some way below the top (never coinciding with the side pin in the middle); sometimes exactly as far
        // below the top as the shape is wide (offsets that happen to equal the other dimension)
        double yoff = 7;
        if (r.chance(0.4) && s.box.w < s.box.h - 5 && std::fabs(s.box.w - s.box.h / 2) > 1) yoff = s.box.w;
        add(3, -1, yoff, false, inside, r.chance(0.5) ? 8 : 15, r.chance(0.7));
    }
    s.pinsIds = {1, 1, 1, 1, 2, 3};
    {
        // side stream: a second pin of class 3 with the SAME offsets and directions as the first, only deeper inside the shape (two
        // ports stacked behind each other) -- the class then has room for two connectors when it is exclusive
        Rng r2(Rng::mix(r.s, "stacked-pin"));
        const Json &last = pins.a.back();
        if (r2.chance(0.3) && last.boolean("prop", true) && last.num("inside", 0) > 0) {
            Json p = last; p.set("inside", last.num("inside", 0) + (double)r2.range(2, 4));
            pins.push(p); s.pins.push_back(p); s.pinsIds.push_back(3);
        }
    }
    o.set("pins", pins);
}

void addJunctionOps(RouterGenCfg &g, double pEnd);
static Json genC11(const std::string &prop, uint64_t seed, const std::string &tier) {
    Rng r(Rng::mix(seed, "plan"));
    Json p = planSkeleton(prop, "router", seed, r, 200);
    Json ss = Json::arr();
    RouterGenCfg g;
    g.ortho = r.chance(0.5);
    g.polygons = false;
    g.costOracles = false;
    g.transactions = !r.chance(0.15);
    g.gap = 30; g.endMargin = 2;
    g.params[P_segment] = g.ortho ? 50 : 0;
    if (g.ortho) { g.params[P_nudgeDist] = r.pick(std::vector<double>{0, 4}); g.options[O_nudgeAttached] = false; }
    bool zeroInside = r.chance(0.1);
    g.styleExtra = zeroInside ? "pins+insideOffset0" : "pins";
    g.checkpoints = g.transactions && r.chance(0.3);     // setRoutingCheckpoints() does not run an implicit transaction in immediate mode
    g.allowDeleteAttached = false;
    g.minShapes = 2; g.maxShapes = 6; g.maxConns = 5;
    g.wDelete = 4; g.wReshape = 15; g.wMoveEnd = 0;
    auto capacity = std::make_shared<std::map<std::pair<int, int>, int>>();
    g.pinHook = [zeroInside](SceneGen &sg, int id, Json &o) { genPins(sg, id, o, zeroInside); };
    g.endHook = [capacity](SceneGen &sg, Json &e, SceneGen::GC &c, int k) -> bool {
        Rng &rr = sg.r;
        if (!rr.chance(0.7)) return false;
        std::vector<int> ids; for (auto &kv : sg.shapes) if (kv.second.alive && !kv.second.pins.empty() && kv.first != c.shapeEnd[0]) ids.push_back(kv.first);
        if (ids.empty()) return false;
        int sid = rr.pick(ids); int cls = rr.range(1, 3);
        int cap = cls == 1 ? 4 : cls == 2 ? 100 : 0; if (cls == 3) for (auto &pj : sg.shapes[sid].pins) if (pj.i("cls", 1) == 3) cap++;      // class 3: one pin, or two stacked ones
        if ((*capacity)[{sid, cls}] >= cap) return false;
        (*capacity)[{sid, cls}]++;
        e = Json::obj(); e.set("shape", sid); e.set("cls", cls);
        c.freeEnd[k] = false; c.shapeEnd[k] = sid; c.clsEnd[k] = cls;
        sg.shapes[sid].attached++;
        return true;
    };
    if (tier == "thorough") { g.maxShapes = 8; g.maxConns = 8; g.maxSteps = 9; }
    if (r.chance(0.3)) addJunctionOps(g, 0.5);          // "an end attached to a junction ends at the junction's position"
    if (r.chance(0.5)) {                                // a pin-attached end is re-attached to another shape's (shared) pin, the shape it leaves is
        auto prev = g.editHook;                         // moved in the same transaction or not at all
        g.editHook = [prev](SceneGen &sg, Json &ops) {
            if (prev && sg.r.chance(0.5)) { prev(sg, ops); return; }
            std::vector<std::pair<int, int>> cand;
            for (auto &kv : sg.conns) if (kv.second.alive && !kv.second.hyper) for (int k = 0; k < 2; k++) if (kv.second.shapeEnd[k] >= 0) cand.push_back({kv.first, k});
            std::vector<int> sids; for (auto &kv : sg.shapes) if (kv.second.alive && !kv.second.pins.empty()) sids.push_back(kv.first);
            if (cand.empty() || sids.size() < 2) { if (prev) prev(sg, ops); return; }
            auto ck = sg.r.pick(cand); SceneGen::GC &c = sg.conns[ck.first]; int k = ck.second;
            int old = c.shapeEnd[k], other = c.shapeEnd[1 - k];
            std::vector<int> tgt; for (int s2 : sids) if (s2 != old && s2 != other) tgt.push_back(s2);
            if (tgt.empty()) { if (prev) prev(sg, ops); return; }
            int to = sg.r.pick(tgt);
            sg.shapes[old].attached--; sg.shapes[to].attached++;
            c.shapeEnd[k] = to; c.clsEnd[k] = 2;
            Json e = Json::obj(); e.set("shape", to); e.set("cls", 2);
            Json o = Json::obj(); o.set("op", "moveEnd"); o.set("id", ck.first); o.set("which", k); o.set("end", e);
            bool before = sg.r.chance(0.5);
            Json mv = Json::obj(); mv.set("op", "moveShape"); mv.set("id", old); mv.set("dx", 0.0); mv.set("dy", 0.0);      // refreshes the ends attached to the shape, moves nothing
            int mode = (int)sg.r.below(3);
            if (mode == 0 && before) ops.push(mv);
            ops.push(o);
            if (mode == 0 && !before) ops.push(mv);
            if (mode == 1) sg.moveShape(ops);
        };
        g.wMove = std::min(g.wMove, 48);
    }
    if (g.checkpoints && r.chance(0.5)) {               // checkpoints changed or cleared on a live connector
        auto prev = g.editHook;
        g.editHook = [prev](SceneGen &sg, Json &ops) {
            if (prev && sg.r.chance(0.5)) { prev(sg, ops); return; }
            std::vector<int> cids; for (auto &kv : sg.conns) if (kv.second.alive && !kv.second.hyper) cids.push_back(kv.first);
            if (cids.empty()) { if (prev) prev(sg, ops); return; }
            int id = sg.r.pick(cids);
            Json o = Json::obj(); o.set("op", "setCheckpoints"); o.set("id", id);
            Json cps = Json::arr(); int nc = (int)sg.r.below(3); sg.conns[id].cps.clear();
            for (int c = 0; c < nc; c++) { Pt q = sg.freePoint(); sg.conns[id].cps.push_back(q); cps.push(ptJ(q)); }
            o.set("checkpoints", cps); ops.push(o);
        };
        g.wMove = std::min(g.wMove, 48);
    }
    if (r.chance(0.4)) {                                // the client rotates / flips shapes: the pins (and the attached routes) follow
        auto prev = g.editHook;
        g.editHook = [prev](SceneGen &sg, Json &ops) {
            if (prev && sg.r.chance(0.5)) { prev(sg, ops); return; }
            std::vector<int> ids; for (auto &kv : sg.shapes) if (kv.second.alive && !kv.second.pins.empty()) ids.push_back(kv.first);
            if (ids.empty()) { if (prev) prev(sg, ops); return; }
            int id = sg.r.pick(ids);
            bool hasAbs = false; for (auto &pj : sg.shapes[id].pins) if (!pj.boolean("prop", true)) hasAbs = true;
            long t = hasAbs ? sg.r.pick(std::vector<long>{1, 3, 4}) : (long)sg.r.below(5);
            Json o = Json::obj(); o.set("op", "transformPins"); o.set("id", id); o.set("t", t); ops.push(o);
        };
        g.wMove = std::min(g.wMove, 48);                // leaves 12 % or more of the edits to the hook
    }
    ss.push(genRouterSession(r, g));
    if (r.chance(0.3)) ss.push(r.chance(0.5) ? genOverlapSession(r, "quick") : genSolverSession(r, "quick"));
    p.set("sessions", ss);
    return p;
}

// C10: corridors shared by several orthogonal connectors (grid of cells, one rectangle per cell)
static Json genNudgeSession(Rng &r, const std::string &tier) {
    Json s = Json::obj(); s.set("kind", "router");
    Json cfg = Json::obj(); cfg.set("mode", "ortho"); cfg.set("transactions", true); cfg.set("cost_oracles", false);
    double nd = (double)r.range(2, 10);
    double buf = r.chance(0.35) ? r.pick(std::vector<double>{5, 10}) : 0;
    Json params = Json::obj(); params.set("0", 50.0); params.set("7", nd);
    if (buf > 0) params.set("6", buf);
    if (r.chance(0.15)) params.set("4", 110.0);
    cfg.set("params", params);
    bool optA = r.chance(0.4), optB = r.chance(0.5), optC = r.chance(0.6), optD = r.chance(0.3);
    Json options = Json::obj(); options.set("0", optA); options.set("3", optB); options.set("4", optC); options.set("6", optD); cfg.set("options", options);
    cfg.set("style", "ortho+nudging");
    s.set("cfg", cfg);
    Json ops = Json::arr();
    {
        // swarm member "staircases" (side stream: every other scene stays as it was): 2-4 connectors whose routes are staircases
        // that merely TOUCH -- the lower end of one stands on the column of the upper end of the next, all bend on the one horizontal
        // line an obstacle to the side provides -- with direction-restricted free ends.  Whether touching collinear segments share a
        // channel depends on nudgeOrthogonalTouchingColinearSegments / fixedSharedPathPenalty; which way the rank at the touch point
        // falls depends on connector ids, route direction and the orientation of the whole scene, all drawn.
        Rng r2(Rng::mix(r.s, "staircases"));
        if (r2.chance(0.06)) {
            double nd2 = (double)r2.range(2, 8); params.set("7", nd2);
            if (r2.chance(0.35)) params.set("4", 110.0);
            options.set("3", r2.chance(0.7)); options.set("0", false);
            cfg.set("params", params); cfg.set("options", options); cfg.set("style", "ortho+nudging+staircases"); s.set("cfg", cfg);
            bool swapXY = r2.chance(0.5), flipX = r2.chance(0.5), flipY = r2.chance(0.5);
            auto T = [&](double x, double y) { if (flipX) x = 600 - x; if (flipY) y = 400 - y; return swapXY ? Pt{y, x} : Pt{x, y}; };
            auto D = [&](unsigned d) {        // ConnDirUp 1, Down 2, Left 4, Right 8
                if (flipY) d = ((d & 1) ? 2 : 0) | ((d & 2) ? 1 : 0) | (d & 12);
                if (flipX) d = ((d & 4) ? 8 : 0) | ((d & 8) ? 4 : 0) | (d & 3);
                if (swapXY) d = ((d & 1) ? 4 : 0) | ((d & 2) ? 8 : 0) | ((d & 4) ? 1 : 0) | ((d & 8) ? 2 : 0);
                return d;
            };
            int k = r2.range(2, 4); double dx = 10.0 * r2.range(6, 12), H = 10.0 * r2.range(16, 24), yb = 10.0 * r2.range(6, (int)(H / 10) - 6);
            // the obstacle whose upper side gives the common bend line y = yb, well to the side of all staircases
            { Pt a = T(dx * (k + 1) + 150, yb), b = T(dx * (k + 1) + 210, yb + 60);
              RectB c{std::min(a.x, b.x), std::min(a.y, b.y), std::fabs(a.x - b.x), std::fabs(a.y - b.y)};
              Json o = Json::obj(); o.set("op", "addShape"); o.set("id", 0); Json pj = Json::arr(); for (auto &q : rectPoly(c)) pj.push(ptJ(q)); o.set("poly", pj); o.set("rect", true); ops.push(o); }
            // free end points do not do: the router lets a direction-restricted free end leave sideways along other end points'
            // visibility lines.  As in an editor, every end is a pin on its own little shape: upper shapes with a pin in the middle of
            // their lower side (ConnDirDown), lower shapes with a pin in the middle of their upper side (ConnDirUp).
            int sid2 = 1;
            auto capShape = [&](double X, double y0, double y1, double py, unsigned dir) {
                Pt a = T(X - 20, y0), b = T(X + 20, y1), pp = T(X, py);
                RectB c{std::min(a.x, b.x), std::min(a.y, b.y), std::fabs(a.x - b.x), std::fabs(a.y - b.y)};
                Json o = Json::obj(); o.set("op", "addShape"); o.set("id", sid2); Json pj = Json::arr(); for (auto &q : rectPoly(c)) pj.push(ptJ(q)); o.set("poly", pj); o.set("rect", true);
                Json pins = Json::arr(); Json pin = Json::obj(); pin.set("cls", 1); pin.set("x", (pp.x - c.x) / c.w); pin.set("y", (pp.y - c.y) / c.h); pin.set("prop", true); pin.set("inside", 0.0); pin.set("dirs", (long)D(dir)); pin.set("excl", true);
                pins.push(pin); o.set("pins", pins); ops.push(o);
                return sid2++;
            };
            std::vector<int> topShape((size_t)k), botShape((size_t)k);
            for (int i = 0; i < k; i++) { topShape[(size_t)i] = capShape(dx * (i + 1), -40, 0, 0, 2); botShape[(size_t)i] = capShape(dx * (i + 2), H, H + 40, H, 1); }
            std::vector<int> order; for (int i = 0; i < k; i++) order.push_back(i);
            for (int i = k - 1; i > 0; i--) std::swap(order[(size_t)i], order[r2.below((uint64_t)i + 1)]);
            // connector ids decide which of two touching connectors the crossing code treats first: drawn, not tied to creation order
            std::vector<int> cids; for (int i = 0; i < k; i++) cids.push_back(i);
            for (int i = k - 1; i > 0; i--) std::swap(cids[(size_t)i], cids[r2.below((uint64_t)i + 1)]);
            for (int i : order) {
                bool rev = r2.chance(0.5);
                Json ea = Json::obj(); ea.set("shape", topShape[(size_t)i]); ea.set("cls", 1);
                Json eb = Json::obj(); eb.set("shape", botShape[(size_t)i]); eb.set("cls", 1);
                Json o = Json::obj(); o.set("op", "addConn"); o.set("id", cids[(size_t)i]); o.set("src", rev ? eb : ea); o.set("dst", rev ? ea : eb); o.set("ctor", (long)r2.below(2));
                ops.push(o);
            }
            { Json o = Json::obj(); o.set("op", "process"); ops.push(o); }
            s.set("ops", ops);
            return s;
        }
    }
    {
        // swarm member "checkpoint on a straight run after an S-bend" (side stream).  A connector leaves its source sideways (an obstacle
        // sits right above it), turns, and reaches its destination along a straight run that passes through a checkpoint given with
        // pass-straight-through arrival / departure directions; the turning segment is a free S-bend segment whose shift is limited by
        // that checkpoint.  A second, straight connector crosses the run.  Orientation (transpose, two mirrors), positions and the
        // nudging distance are drawn; the masks are mapped with the frame.
        Rng r2(Rng::mix(r.s, "checkpoint-after-s-bend"));
        if (r2.chance(0.04)) {
            double nd2 = r2.pick(std::vector<double>{4, 10, 16}); params.set("7", nd2);
            options = Json::obj();      // all nudging options at their defaults
            cfg.set("params", params); cfg.set("options", options); cfg.set("style", "ortho+nudging+checkpoint-after-s-bend"); s.set("cfg", cfg);
            bool swapXY = r2.chance(0.5), flipX = r2.chance(0.5), flipY = r2.chance(0.5);
            auto T = [&](double x, double y) { if (flipX) x = 400 - x; if (flipY) y = 100 - y; return swapXY ? Pt{y, x} : Pt{x, y}; };
            auto D = [&](unsigned d) {        // ConnDirUp 1, Down 2, Left 4, Right 8
                if (flipY) d = ((d & 1) ? 2 : 0) | ((d & 2) ? 1 : 0) | (d & 12);
                if (flipX) d = ((d & 4) ? 8 : 0) | ((d & 8) ? 4 : 0) | (d & 3);
                if (swapXY) d = ((d & 1) ? 4 : 0) | ((d & 2) ? 8 : 0) | ((d & 4) ? 1 : 0) | ((d & 8) ? 2 : 0);
                return d;
            };
            auto shape = [&](int id, double x0, double y0, double x1, double y1) {
                Pt a = T(x0, y0), b = T(x1, y1); RectB c{std::min(a.x, b.x), std::min(a.y, b.y), std::fabs(a.x - b.x), std::fabs(a.y - b.y)};
                Json o = Json::obj(); o.set("op", "addShape"); o.set("id", id); Json pj = Json::arr(); for (auto &q : rectPoly(c)) pj.push(ptJ(q)); o.set("poly", pj); o.set("rect", true); ops.push(o);
            };
            if (r2.chance(0.4)) {
                // variant: TWO checkpoints in line on the straight run that leaves the source, the route continuing past the second one
                // before it turns; the turning segment may be centred in its channel only as far as the last checkpoint allows
                cfg.set("style", "ortho+nudging+checkpoint-after-s-bend+two-in-line"); s.set("cfg", cfg);
                double c1 = 10.0 * r2.range(5, 15), c2 = c1 + 10.0 * r2.range(8, 22);
                shape(0, 250, 600, 350, 700);
                Json a = Json::obj(); a.set("op", "addConn"); a.set("id", 0);
                // (both ends are pins on little shapes: a direction-restricted free end would be left sideways)
                auto pinned = [&](int id, double x0, double y0, double x1, double y1, double px, double py, unsigned dir) {
                    Pt p0 = T(x0, y0), p1 = T(x1, y1), pp = T(px, py); RectB c{std::min(p0.x, p1.x), std::min(p0.y, p1.y), std::fabs(p0.x - p1.x), std::fabs(p0.y - p1.y)};
                    Json o = Json::obj(); o.set("op", "addShape"); o.set("id", id); Json pj = Json::arr(); for (auto &q : rectPoly(c)) pj.push(ptJ(q)); o.set("poly", pj); o.set("rect", true);
                    Json pins = Json::arr(); Json pin = Json::obj(); pin.set("cls", 1); pin.set("x", (pp.x - c.x) / c.w); pin.set("y", (pp.y - c.y) / c.h); pin.set("prop", true); pin.set("inside", 0.0); pin.set("dirs", (long)D(dir)); pin.set("excl", true);
                    pins.push(pin); o.set("pins", pins); ops.push(o);
                };
                pinned(1, -40, -20, 0, 20, 0, 0, 8); pinned(2, 400, 80, 440, 120, 400, 100, 4);
                Json ea = Json::obj(); ea.set("shape", 1); ea.set("cls", 1); Json eb = Json::obj(); eb.set("shape", 2); eb.set("cls", 1); a.set("src", ea); a.set("dst", eb); a.set("ctor", (long)r2.below(2));
                Json cps = Json::arr(); cps.push(ptJ(T(c1, 0))); cps.push(ptJ(T(c2, 0))); a.set("checkpoints", cps);
                ops.push(a);
                { Json o = Json::obj(); o.set("op", "process"); ops.push(o); }
                s.set("ops", ops);
                return s;
            }
            double cpx = 10.0 * r2.range(12, 30), bx = cpx + 10.0 * r2.range(3, 8);
            shape(0, 250, 600, 350, 700);             // far away: extra scan lines
            shape(1, 380, 20, 460, 80);               // right above the source of A
            Json a = Json::obj(); a.set("op", "addConn"); a.set("id", 0);
            { Json ea = Json::obj(); ea.set("pt", ptJ(T(400, 100))); ea.set("dirs", (long)D(4)); Json eb = Json::obj(); eb.set("pt", ptJ(T(0, 0))); eb.set("dirs", (long)D(8)); a.set("src", ea); a.set("dst", eb); a.set("ctor", 1);
              Json cps = Json::arr(); Json cj = ptJ(T(cpx, 0)); cj.push((long)D(8)); cj.push((long)D(4)); cps.push(cj); a.set("checkpoints", cps); }
            Json b = Json::obj(); b.set("op", "addConn"); b.set("id", 1);
            { Json ea = Json::obj(); ea.set("pt", ptJ(T(bx, -150))); ea.set("dirs", (long)D(2)); Json eb = Json::obj(); eb.set("pt", ptJ(T(bx, 250))); eb.set("dirs", (long)D(1)); b.set("src", ea); b.set("dst", eb); b.set("ctor", 1); }
            if (r2.chance(0.5)) { ops.push(a); if (r2.chance(0.8)) ops.push(b); } else { ops.push(b); ops.push(a); }
            { Json o = Json::obj(); o.set("op", "process"); ops.push(o); }
            s.set("ops", ops);
            return s;
        }
    }
    if (r.chance(0.12)) {
        // swarm member "doors": a wall with a door far too narrow for the connectors that must pass it (their separation gets
        // reduced, possibly to nothing -- legitimate) and a door many times wider than needed, where the property does demand
        // separation at the requested distance.  Which group is created first (= has the lower ids) is drawn.
        double nd2 = r.pick(std::vector<double>{10, 20, 40}); params.set("7", nd2); cfg.set("params", params); cfg.set("style", "ortho+nudging+doors"); s.set("cfg", cfg);
        int kn = r.range(2, 3), kw = r.range(2, 3);
        // the wide door is wide by the oracle's own (conservative) measure: room for every connector of the scene on both sides of its middle
        double g = r.pick(std::vector<double>{4, 6, 8}), W = 2 * (kn + kw + 1) * 40.0 + 100 * (double)r.range(1, 3);
        bool vertical = r.chance(0.5);      // the wall may also stand upright (x and y swapped)
        auto P = [&](double x, double y) { return vertical ? Pt{y, x} : Pt{x, y}; };
        auto rect = [&](double x0, double x1, double y0, double y1) { RectB c = vertical ? RectB{y0, x0, y1 - y0, x1 - x0} : RectB{x0, y0, x1 - x0, y1 - y0}; return c; };
        std::vector<RectB> walls{rect(-500, 100, 90, 110), rect(100 + g, 700, 90, 110), rect(700 + W, 2700, 90, 110)};
        int sid2 = 0;
        for (auto &c : walls) { Json o = Json::obj(); o.set("op", "addShape"); o.set("id", sid2++); Json pj = Json::arr(); for (auto &q : rectPoly(c)) pj.push(ptJ(q)); o.set("poly", pj); o.set("rect", true); ops.push(o); }
        std::vector<std::pair<Pt, Pt>> narrow, wide;
        for (int i = 0; i < kn; i++) narrow.push_back({P(40, 30 + 20 * i), P(160 + g, 170 - 20 * i)});
        for (int i = 0; i < kw; i++) wide.push_back({P(600, 30 + 20 * i), P(800 + W, 170 - 20 * i)});
        bool narrowFirst = r.chance(0.5);
        std::vector<std::pair<Pt, Pt>> all;
        if (narrowFirst) { all = narrow; all.insert(all.end(), wide.begin(), wide.end()); } else { all = wide; all.insert(all.end(), narrow.begin(), narrow.end()); }
        int cid2 = 0;
        for (auto &e : all) {
            Json o = Json::obj(); o.set("op", "addConn"); o.set("id", cid2++);
            Json ea = Json::obj(); ea.set("pt", ptJ(e.first)); Json eb = Json::obj(); eb.set("pt", ptJ(e.second)); o.set("src", ea); o.set("dst", eb); o.set("ctor", (long)r.below(2));
            ops.push(o);
        }
        { Json o = Json::obj(); o.set("op", "process"); ops.push(o); }
        if (r.chance(0.5)) { Json o = Json::obj(); o.set("op", "setParam"); o.set("param", 7); o.set("value", r.pick(std::vector<double>{10, 20, 40})); ops.push(o); Json q = Json::obj(); q.set("op", "process"); ops.push(q); }
        s.set("ops", ops);
        return s;
    }
    int gx = r.range(2, 4), gy = r.range(2, 3);
    std::vector<RectB> rs; std::vector<int> ids;
    int sid = 0;
    for (int i = 0; i < gx; i++) for (int j = 0; j < gy; j++) {
        if (r.chance(0.2)) continue;
        double wd = 40 + r.below(9) * 10, h = 30 + r.below(6) * 10; int mg = r.chance(0.33) ? 10 : 40;
        double x = i * 200 + mg + r.below((uint64_t)((200 - 2 * mg - wd) / 10 + 1)) * 10, y = j * 160 + mg + r.below((uint64_t)((160 - 2 * mg - h) / 10 + 1)) * 10;
        RectB c{x, y, wd, h}; rs.push_back(c); ids.push_back(sid);
        Json o = Json::obj(); o.set("op", "addShape"); o.set("id", sid++); Json pj = Json::arr(); for (auto &q : rectPoly(c)) pj.push(ptJ(q)); o.set("poly", pj); o.set("rect", true); ops.push(o);
    }
    std::vector<Pt> used;
    auto freept = [&]() {
        for (int t = 0; t < 500; t++) {
            Pt p{(double)r.below(gx * 20 + 1) * 10, (double)r.below(gy * 16 + 1) * 10};
            if (!rs.empty() && r.chance(0.3)) {
                // an end point whose end segment will run along the line of some routing-box side (shape side grown by the buffer)
                const RectB &o = rs[r.below(rs.size())];
                if (r.chance(0.5)) p.x = r.chance(0.5) ? o.x - buf : o.x + o.w + buf; else p.y = r.chance(0.5) ? o.y - buf : o.y + o.h + buf;
            }
            bool ok = true;
            for (auto &o : rs) if (p.x >= o.x - 15 - buf && p.x <= o.x + o.w + 15 + buf && p.y >= o.y - 15 - buf && p.y <= o.y + o.h + 15 + buf) ok = false;
            for (auto &u : used) if (std::fabs(u.x - p.x) < 25 && std::fabs(u.y - p.y) < 25) ok = false;
            if (ok) { used.push_back(p); return p; }
        }
        Pt p{-50.0 - 30.0 * used.size(), -50}; used.push_back(p); return p;
    };
    int m = r.range(2, tier == "thorough" ? 7 : 5);
    for (int i = 0; i < m; i++) {
        Pt a = freept(), b = freept();
        Json o = Json::obj(); o.set("op", "addConn"); o.set("id", i);
        Json ea = Json::obj(); ea.set("pt", ptJ(a)); Json eb = Json::obj(); eb.set("pt", ptJ(b)); o.set("src", ea); o.set("dst", eb); o.set("ctor", (long)r.below(2));
        if (r.chance(0.25)) {
            // a checkpoint on the row or column of the destination, so that it lies in the interior of a route segment
            // (nudging must keep it on the route: it limits how far the segment before it may be shifted)
            // on the side the route comes from (a checkpoint beyond the destination makes the route double back on itself)
            bool row = r.chance(0.5); double span = row ? a.x - b.x : a.y - b.y;
            double d = (double)r.range(4, std::max(4, (int)((std::fabs(span) - 30) / 10))) * 10 * (span > 0 ? 1 : -1);      // anywhere between the destination and the source's coordinate
            Pt cp = row ? Pt{b.x + d, b.y} : Pt{b.x, b.y + d};
            bool ok = std::fabs(d) < std::fabs(span) - 20;
            for (auto &ob : rs) if (cp.x >= ob.x - 15 - buf && cp.x <= ob.x + ob.w + 15 + buf && cp.y >= ob.y - 15 - buf && cp.y <= ob.y + ob.h + 15 + buf) ok = false;
            // nothing between the checkpoint and the destination either
            for (auto &ob : rs) { double lo = std::min(row ? cp.x : cp.y, row ? b.x : b.y), hi = std::max(row ? cp.x : cp.y, row ? b.x : b.y); double c0 = row ? b.y : b.x;
                if ((row ? ob.y - 15 - buf : ob.x - 15 - buf) <= c0 && c0 <= (row ? ob.y + ob.h + 15 + buf : ob.x + ob.w + 15 + buf) && (row ? ob.x + ob.w : ob.y + ob.h) >= lo && (row ? ob.x : ob.y) <= hi) ok = false; }
            if (ok) {
                Json cps = Json::arr(); Json cj = ptJ(cp);
                // (arrival / departure masks are supported by the executor -- entries [x, y, arrival, departure] -- but not generated:
                //  their meaning for vertical approaches could not be established from the documentation alone)
                cps.push(cj); o.set("checkpoints", cps);
            }
        }
        ops.push(o);
    }
    { Json o = Json::obj(); o.set("op", "process"); ops.push(o); }
    // history: move rectangles inside their cells, re-nudge
    int steps = rs.empty() ? 0 : r.range(0, 4);
    for (int st = 0; st < steps; st++) {
        int k = (int)r.below(rs.size());
        double dx = 10 * (double)r.range(-3, 3), dy = 10 * (double)r.range(-3, 3);
        RectB c = rs[k]; c.x += dx; c.y += dy;
        bool ok = true;
        for (size_t q = 0; q < rs.size(); q++) if ((int)q != k && rectsOverlap(c, rs[q], 20)) ok = false;
        for (auto &u : used) if (u.x >= c.x - 15 && u.x <= c.x + c.w + 15 && u.y >= c.y - 15 && u.y <= c.y + c.h + 15) ok = false;
        if (ok) { rs[k] = c; Json o = Json::obj(); o.set("op", "moveShape"); o.set("id", ids[k]); o.set("dx", dx); o.set("dy", dy); ops.push(o); }
        if (r.chance(0.2)) { Json o = Json::obj(); o.set("op", "setParam"); o.set("param", 7); o.set("value", (double)r.range(2, 10)); ops.push(o); }
        Json o = Json::obj(); o.set("op", "process"); ops.push(o);
    }
    s.set("ops", ops);
    return s;
}
static Json genC10(const std::string &prop, uint64_t seed, const std::string &tier) {
    Rng r(Rng::mix(seed, "plan"));
    Json p = planSkeleton(prop, "router", seed, r, 200);
    Json ss = Json::arr();
    ss.push(genNudgeSession(r, tier));
    if (r.chance(0.3)) ss.push(r.chance(0.5) ? genOverlapSession(r, "quick") : genSolverSession(r, "quick", 1));
    p.set("sessions", ss);
    return p;
}
static GenRegistrar g10("C10", genC10), g11("C11", genC11);

// pins, junction ends and nudging scenes also take part in the C15 / C20 worlds
static void extendForMix(Rng &r, RouterGenCfg &g, bool forC20) {
    if (r.chance(0.3)) { addJunctionOps(g, 0.5); g.styleExtra = g.styleExtra.empty() ? "junctions" : g.styleExtra + "+junctions"; }
    if (!forC20 && r.chance(0.35)) {
        // less common API in the memory-safety worlds: clusters (with a cluster-crossing penalty), fixed routes, crossing
        // aversion, pin transforms.  No geometric oracle is armed in these worlds; C15 watches.
        auto prev = g.editHook;
        auto nextCluster = std::make_shared<int>(0);
        auto liveClusters = std::make_shared<std::set<int>>();
        if (r.chance(0.6)) g.params[P_clusterCrossing] = r.pick(std::vector<double>{0, 50, 4000});
        bool clustersOk = g.ortho;      // polyline cluster boundaries must be made of shape vertices (makepath.cpp:385): orthogonal mode only
        g.editHook = [prev, nextCluster, liveClusters, clustersOk](SceneGen &sg, Json &ops) {
            Rng &rr = sg.r;
            if (prev && rr.chance(0.4)) { prev(sg, ops); return; }
            int what = (int)rr.below(10);
            if (!clustersOk && what < 6) what = 6 + (int)rr.below(4);
            auto rectAround = [&]() {
                std::vector<int> ids; for (auto &kv : sg.shapes) if (kv.second.alive) ids.push_back(kv.first);
                RectB b{(double)rr.below(300), (double)rr.below(300), (double)(60 + rr.below(200)), (double)(60 + rr.below(200))};
                if (!ids.empty() && rr.chance(0.7)) { const RectB &s0 = sg.shapes[rr.pick(ids)].box; double m = 5 + rr.below(4) * 5; b = RectB{s0.x - m, s0.y - m, s0.w + 2 * m + rr.below(3) * 40, s0.h + 2 * m + rr.below(3) * 40}; }
                Json pj = Json::arr(); for (auto &q : rectPoly(b)) pj.push(ptJ(q)); return pj;
            };
            std::vector<int> cids; for (auto &kv : sg.conns) if (kv.second.alive && !kv.second.hyper) cids.push_back(kv.first);
            if (what < 3 || (what < 6 && liveClusters->empty())) {
                int id = (*nextCluster)++; liveClusters->insert(id);
                Json o = Json::obj(); o.set("op", "addCluster"); o.set("id", id); o.set("poly", rectAround()); ops.push(o);
            } else if (what < 5) {
                int id = *std::next(liveClusters->begin(), (long)rr.below(liveClusters->size()));
                Json o = Json::obj(); o.set("op", "moveCluster"); o.set("id", id); o.set("poly", rectAround()); ops.push(o);
            } else if (what < 6) {
                int id = *std::next(liveClusters->begin(), (long)rr.below(liveClusters->size())); liveClusters->erase(id);
                Json o = Json::obj(); o.set("op", "deleteCluster"); o.set("id", id); ops.push(o);
            } else if (!cids.empty()) {
                int id = rr.pick(cids);
                if (rr.chance(0.35)) {
                    Json o = Json::obj(); o.set("op", "setCheckpoints"); o.set("id", id);
                    Json cps = Json::arr(); int nc = (int)rr.below(3); for (int c = 0; c < nc; c++) cps.push(ptJ(sg.freePoint())); o.set("checkpoints", cps);
                    ops.push(o);
                    return;
                }
                Json o = Json::obj(); o.set("op", what < 8 ? "fixRoute" : what < 9 ? "clearFixedRoute" : "hateCrossings"); o.set("id", id);
                if (what == 9) o.set("v", rr.chance(0.5));
                ops.push(o);
            }
        };
        g.wMove = std::min(g.wMove, 40);
        g.costOracles = false;
        g.styleExtra = g.styleExtra.empty() ? "misc-api" : g.styleExtra + "+misc-api";
    }
    if (r.chance(0.4)) {
        g.polygons = false; g.gap = std::max(g.gap, 30.0); g.endMargin = std::max(g.endMargin, 2.0);
        bool zero = r.chance(0.1);
        g.pinHook = [zero](SceneGen &sg, int id, Json &o) { genPins(sg, id, o, zero); };
        auto capacity = std::make_shared<std::map<std::pair<int, int>, int>>();
        g.endHook = [capacity](SceneGen &sg, Json &e, SceneGen::GC &c, int k) -> bool {
            Rng &rr = sg.r;
            if (!rr.chance(0.6)) return false;
            std::vector<int> ids; for (auto &kv : sg.shapes) if (kv.second.alive && !kv.second.pins.empty() && kv.first != c.shapeEnd[0]) ids.push_back(kv.first);
            if (ids.empty()) return false;
            int sid = rr.pick(ids); int cls = rr.range(1, 3);
            int cap = cls == 1 ? 4 : cls == 2 ? 100 : 0; if (cls == 3) for (auto &pj : sg.shapes[sid].pins) if (pj.i("cls", 1) == 3) cap++;      // class 3: one pin, or two stacked ones
            if ((*capacity)[{sid, cls}] >= cap) return false;
            (*capacity)[{sid, cls}]++;
            e = Json::obj(); e.set("shape", sid); e.set("cls", cls);
            c.freeEnd[k] = false; c.shapeEnd[k] = sid; c.clsEnd[k] = cls;
            sg.shapes[sid].attached++;
            return true;
        };
        g.allowDeleteAttached = !forC20 && r.chance(0.5);     // deleting a shape whose pins are in use is legal (C15 watches)
        g.styleExtra = "pins";
    }
}
// pins + pin-attached ends for other generators (C03 validity of pin-attached routes)
void addPinOps(RouterGenCfg &g, bool zeroInside) {
    g.polygons = false; g.gap = std::max(g.gap, 30.0); g.endMargin = std::max(g.endMargin, 2.0);
    g.pinHook = [zeroInside](SceneGen &sg, int id, Json &o) { genPins(sg, id, o, zeroInside); };
    auto capacity = std::make_shared<std::map<std::pair<int, int>, int>>();
    g.endHook = [capacity](SceneGen &sg, Json &e, SceneGen::GC &c, int k) -> bool {
        Rng &rr = sg.r;
        if (!rr.chance(0.6)) return false;
        std::vector<int> ids; for (auto &kv : sg.shapes) if (kv.second.alive && !kv.second.pins.empty() && kv.first != c.shapeEnd[0]) ids.push_back(kv.first);
        if (ids.empty()) return false;
        int sid = rr.pick(ids); int cls = rr.range(1, 3);
        int cap = cls == 1 ? 4 : cls == 2 ? 100 : 0; if (cls == 3) for (auto &pj : sg.shapes[sid].pins) if (pj.i("cls", 1) == 3) cap++;      // class 3: one pin, or two stacked ones
        if ((*capacity)[{sid, cls}] >= cap) return false;
        (*capacity)[{sid, cls}]++;
        e = Json::obj(); e.set("shape", sid); e.set("cls", cls);
        c.freeEnd[k] = false; c.shapeEnd[k] = sid; c.clsEnd[k] = cls;
        sg.shapes[sid].attached++;
        return true;
    };
    g.allowDeleteAttached = false;
    g.pinsGeometry = true;
    g.styleExtra = g.styleExtra.empty() ? "pins" : g.styleExtra + "+pins";
}

// junctions as ordinary scene objects (free-standing junctions with connectors attached): add, move, delete in any order,
// including move + delete of one junction inside one transaction
void addJunctionOps(RouterGenCfg &g, double pEnd) {
    auto prevSetup = g.setupHook;
    g.setupHook = [prevSetup](SceneGen &sg, Json &ops) {
        if (prevSetup) prevSetup(sg, ops);
        int nj = sg.r.range(1, 2);
        for (int k = 0; k < nj; k++) {
            Pt p = sg.freePoint();
            int id = sg.nextJunction++;
            sg.junctions[id].p = p; sg.junctions[id].alive = true;
            Json o = Json::obj(); o.set("op", "addJunction"); o.set("id", id); o.set("pt", ptJ(p)); if (sg.r.chance(0.2)) o.set("fixed", true);
            ops.push(o);
            // two or three connectors from free points to the junction
            int nc = sg.r.range(2, 3);
            for (int c = 0; c < nc; c++) {
                SceneGen::GC gc; gc.alive = true;
                Pt q = sg.freePoint();
                gc.e[0] = q; gc.freeEnd[0] = true; gc.e[1] = p; gc.freeEnd[1] = false; gc.junctionEnd[1] = id;
                int cid = sg.nextConn++;
                sg.conns[cid] = gc;
                Json co = Json::obj(); co.set("op", "addConn"); co.set("id", cid);
                Json ea = Json::obj(); ea.set("pt", ptJ(q)); Json eb = Json::obj(); eb.set("junction", id);
                co.set("src", ea); co.set("dst", eb); co.set("ctor", (long)sg.r.below(2));
                ops.push(co);
            }
        }
    };
    g.editHook = [](SceneGen &sg, Json &ops) {
        std::vector<int> ids; for (auto &kv : sg.junctions) if (kv.second.alive) ids.push_back(kv.first);
        if (ids.empty()) return;
        int id = sg.r.pick(ids);
        int what = (int)sg.r.below(10);
        if (what < 6) {
            Pt p = sg.freePoint(); sg.junctions[id].p = p;
            Json o = Json::obj(); o.set("op", "moveJunction"); o.set("id", id); o.set("pt", ptJ(p)); ops.push(o);
            if (sg.r.chance(0.25)) { sg.junctions[id].alive = false; Json d = Json::obj(); d.set("op", "deleteJunction"); d.set("id", id); ops.push(d); }   // move, then delete, in one transaction
        } else if (what < 8) {
            sg.junctions[id].alive = false; Json d = Json::obj(); d.set("op", "deleteJunction"); d.set("id", id); ops.push(d);
        } else {
            Pt p = sg.freePoint(); int nid = sg.nextJunction++; sg.junctions[nid].p = p; sg.junctions[nid].alive = true;
            Json o = Json::obj(); o.set("op", "addJunction"); o.set("id", nid); o.set("pt", ptJ(p)); ops.push(o);
        }
    };
    g.wMove = 50; g.wDelete = 8; g.wAdd = 6; g.wMoveEnd = 6; g.wReshape = 5; g.wAddConn = 4; g.wDelConn = 4;      // the rest (17%) goes to the junction hook
    (void)pEnd;
}
static Json mixNudge(Rng &r, const std::string &tier, bool) { return genNudgeSession(r, tier); }
static MixGenRegistrar mgn(mixNudge);
static struct InstallMixExt { InstallMixExt() { extendRouterCfgForMix = extendForMix; } } installMixExt;

// ---------------------------------------------------------------- C20 frame clauses (end-of-world check over the recorded history)
static void frameTwinCheck(World &w) {
    if (!w.armed("C20")) return;
    for (size_t bi = 0; bi < w.sessions.size(); bi++) {
        RouterSession *B = dynamic_cast<RouterSession *>(w.sessions[bi]);
        if (!B || !B->spec["cfg"].has("twin")) continue;
        long of = B->spec["cfg"]["twin"].i("of", -1);
        if (of < 0 || of >= (long)w.sessions.size()) continue;
        RouterSession *A = dynamic_cast<RouterSession *>(w.sessions[(size_t)of]);
        if (!A || A->dead || B->dead) continue;
        const Json &fr = B->spec["cfg"]["twin"]["frame"];
        bool translate = fr.str("kind", "") == "translate";
        size_t nt = std::min(A->txnCosts.size(), B->txnCosts.size());
        for (size_t t = 0; t < nt; t++) {
            for (auto &kv : A->txnCosts[t]) {
                auto itb = B->txnCosts[t].find(kv.first);
                if (itb == B->txnCosts[t].end()) continue;
                w.probe(translate ? "frame.translated-route-compared" : "frame.symmetric-cost-compared");
                double ca = kv.second, cb = itb->second;
                bool costSame = std::fabs(ca - cb) <= 1e-6 * std::max(1.0, std::fabs(ca));
                Violation v; v.prop = "C20"; v.clause = "frame"; v.session = (int)bi; v.op = -1;
                std::string edgeCls = B->spec["cfg"].str("style", "").find("end-points-on-shape-sides") != std::string::npos ? ":end-points-on-shape-sides" : "";
                if (B->spec["cfg"].str("style", "").find("direction-restricted-ends") != std::string::npos) edgeCls += ":direction-restricted-end-points";
                if (!costSame) {
                    v.sig = (translate ? "translation-changes-route-cost" : "symmetry-changes-route-cost") + edgeCls;
                    v.detail = fmt("transaction %zu conn %d: cost %.9f vs %.9f (%s %s, frame %s)", t, kv.first, ca, cb, A->ortho ? "ortho" : "poly", translate ? "translate" : "sym", fr.dump().c_str());
                    w.violate(v); return;
                }
                if (translate) {
                    const std::vector<Pt> &ra = A->txnRoutes[t][kv.first], &rb = B->txnRoutes[t][kv.first];
                    bool same = ra.size() == rb.size();
                    double dx = fr.num("dx", 0), dy = fr.num("dy", 0), tol = A->ortho ? 1e-9 : 0;
                    for (size_t i = 0; same && i < ra.size(); i++) if (std::fabs(ra[i].x + dx - rb[i].x) > tol || std::fabs(ra[i].y + dy - rb[i].y) > tol) same = false;
                    if (!same) {
                        v.sig = "translation-changes-route-among-equal-cost-routes" + edgeCls;
                        v.detail = fmt("transaction %zu conn %d: same cost %.9f but a different route after translating by (%g,%g)", t, kv.first, ca, dx, dy);
                        w.violate(v); return;
                    }
                }
            }
        }
    }
}
static EndInvariantRegistrar eir1(frameTwinCheck);
