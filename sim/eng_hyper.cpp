// Hyperedge sessions (C12): terminals on shape pins joined through junctions;
// full rerouting and local improvement may move, add and delete junctions and
// connectors, so the model is checked against the router's LIVE objects, never
// against handles the session kept.
#include "core.h"
#include "sigs.h"
#include "geom.h"
#include "mix_gen.h"
#include "libavoid/libavoid.h"
#include "libvpsc/assertions.h"

using namespace Avoid;
struct HyperSession;
struct HyperRouter : Router {
    HyperSession *s = nullptr;
    explicit HyperRouter(unsigned f) : Router(f) {}
    bool shouldContinueTransactionWithProgress(unsigned int elapsedTime, unsigned int phaseNumber, unsigned int totalPhases, double proportion) override;
};

struct HyperSession : Session {
    HyperRouter *router = nullptr;
    struct Sh { RectB box; ShapeRef *ref; bool alive; };
    std::map<int, Sh> shapes;                                   // key = libavoid shape id
    std::vector<std::multiset<std::pair<unsigned, unsigned>>> expected;   // per hyperedge: terminal multiset (shape id, pin class)
    std::set<JunctionRef *> pendingDeletedJunctions;            // reported deleted in the last transaction: freed "at the router's convenience"
    std::set<unsigned> pendingDeletedJunctionIds;
    std::map<void *, unsigned> idBefore;                        // object address -> id, taken before the transaction (addresses are reused)
    bool dead = false, majorImprove = false;
    size_t registeredThisTxn = 0;
    bool viaTerminals = false, judging = true;
    int checks = 0;

    std::string guarded(const std::function<void()> &fn) {
        try { LibScope ls; fn(); }
        catch (vpsc::CriticalFailure &f) { HarnessScope hs; return assertSig(f); }
        catch (std::exception &e) { return "std::exception"; }
        catch (...) { return "unknown-exception"; }
        return "";
    }
    std::vector<JunctionRef *> liveJunctions() {
        std::vector<JunctionRef *> v;
        for (Obstacle *o : router->m_obstacles) { JunctionRef *j = dynamic_cast<JunctionRef *>(o); if (j && !pendingDeletedJunctions.count(j)) v.push_back(j); }
        return v;
    }
    void check(const char *when);
    // KF-C12-a: some junction of the scene sits on a terminal's pin, i.e. inside a shape
    std::string insideClass() {
        for (Obstacle *o : router->m_obstacles) if (JunctionRef *j = dynamic_cast<JunctionRef *>(o)) for (auto &kv : shapes) {
            const RectB &b = kv.second.box;
            for (Point q : {j->position(), j->recommendedPosition()}) if (q.x >= b.x && q.x <= b.x + b.w && q.y >= b.y && q.y <= b.y + b.h) return ":junction-placed-inside-the-terminal-shape";
        }
        return "";
    }
    std::string describe() {
        std::string d = " live:";
        for (ConnRef *c : router->connRefs) {
            auto ce = c->endpointConnEnds();
            auto e = [&](const ConnEnd &x) { return x.shape() ? fmt("S%u.%u", x.shape()->id(), x.pinClassId()) : x.junction() ? fmt("J%u%s", x.junction()->id(), pendingDeletedJunctions.count(x.junction()) ? "(deleted)" : "") : std::string("-"); };
            d += fmt(" c%u[%s|%s]", c->id(), e(ce.first).c_str(), e(ce.second).c_str());
        }
        for (Obstacle *o : router->m_obstacles) if (JunctionRef *j = dynamic_cast<JunctionRef *>(o)) d += fmt(" J%u@(%g,%g)/rec(%g,%g)%s", j->id(), j->position().x, j->position().y, j->recommendedPosition().x, j->recommendedPosition().y, pendingDeletedJunctions.count(j) ? "(deleted)" : "");
        for (auto &kv : shapes) d += fmt(" S%d[%g,%g %gx%g]", kv.first, kv.second.box.x, kv.second.box.y, kv.second.box.w, kv.second.box.h);
        return d;
    }
    void collectLists();
    void run() override;
};
bool HyperRouter::shouldContinueTransactionWithProgress(unsigned int elapsedTime, unsigned int phaseNumber, unsigned int, double) {
    HarnessScope hs;
    s->checks++;
    s->w->log.ev("hyper-progress", phaseNumber, (long)elapsedTime);
    if (phaseNumber != TransactionPhaseCompleted) s->w->yieldFrom(s->id, "hyper-cb", true);
    return true;
}

void HyperSession::collectLists() {
    // what the router reports as new / deleted after this transaction
    HarnessScope hs;
    std::vector<HyperedgeNewAndDeletedObjectLists> lists;
    {
        LibScope ls;
        lists.push_back(router->newAndDeletedObjectListsFromHyperedgeImprovement());
        // the rerouter clears its registrations (count() == 0) once it has run, but keeps the per-hyperedge result vectors
        // until the next registration: read them by the indexes registerHyperedgeForRerouting() returned
        HyperedgeRerouter *hr = router->hyperedgeRerouter();
        for (size_t i = 0; i < registeredThisTxn && i < hr->m_deleted_junctions_vector.size() && i < hr->m_new_junctions_vector.size(); i++) {
            HyperedgeNewAndDeletedObjectLists l;
            l.newJunctionList = hr->m_new_junctions_vector[i]; l.deletedJunctionList = hr->m_deleted_junctions_vector[i];
            l.newConnectorList = hr->m_new_connectors_vector[i]; l.deletedConnectorList = hr->m_deleted_connectors_vector[i];
            lists.push_back(l);
        }
        registeredThisTxn = 0;
    }
    std::set<JunctionRef *> nowDeleted; std::set<unsigned> nowDeletedIds;
    std::set<JunctionRef *> allJ; std::set<unsigned> liveJIds, liveCIds;
    for (Obstacle *o : router->m_obstacles) if (JunctionRef *j = dynamic_cast<JunctionRef *>(o)) { allJ.insert(j); liveJIds.insert(j->id()); }
    std::set<ConnRef *> allC(router->connRefs.begin(), router->connRefs.end());
    for (ConnRef *c : router->connRefs) liveCIds.insert(c->id());
    // identity is the object id taken before the transaction: freed addresses are reused by new objects
    auto idOf = [&](void *p) -> long { auto it = idBefore.find(p); return it == idBefore.end() ? -1 : (long)it->second; };
    std::set<long> anyDelJ, anyDelC;
    for (auto &l : lists) { for (JunctionRef *j : l.deletedJunctionList) anyDelJ.insert(idOf(j)); for (ConnRef *c : l.deletedConnectorList) anyDelC.insert(idOf(c)); }
    for (auto &l : lists) {
        // an object created by the rerouter and removed again by the improver in the same transaction appears in both lists
        for (JunctionRef *j : l.newJunctionList) if (!allJ.count(j) && idOf(j) < 0) { violate("C12", "reported-lists", "reported-new-junction-is-not-live", ""); break; }
        for (ConnRef *c : l.newConnectorList) if (!allC.count(c) && idOf(c) < 0) { bool inDel = false; for (auto &l2 : lists) for (ConnRef *d : l2.deletedConnectorList) if (d == c) inDel = true; if (!inDel) { violate("C12", "reported-lists", "reported-new-connector-is-not-live", ""); break; } }
        for (ConnRef *c : l.deletedConnectorList) { long cid = idOf(c); if (cid >= 0 && liveCIds.count((unsigned)cid)) { violate("C12", "reported-lists", "reported-deleted-connector-is-still-live", fmt("conn %ld", cid)); break; } }
        for (JunctionRef *j : l.deletedJunctionList) { nowDeleted.insert(j); long jid = idOf(j); if (jid >= 0) nowDeletedIds.insert((unsigned)jid); }
        if (!l.newJunctionList.empty() || !l.deletedJunctionList.empty()) probe("hyper.junctions-added-or-deleted");
    }
    // junctions reported deleted in the PREVIOUS transaction must be gone by now (they are queued for deletion)
    for (unsigned jid : pendingDeletedJunctionIds) if (liveJIds.count(jid) && !nowDeletedIds.count(jid)) { violate("C12", "reported-lists", "junction-reported-deleted-still-live-after-following-transaction", fmt("junction %u", jid)); break; }
    pendingDeletedJunctions.clear();
    for (JunctionRef *j : nowDeleted) if (allJ.count(j)) pendingDeletedJunctions.insert(j);
    pendingDeletedJunctionIds = nowDeletedIds;
}

void HyperSession::check(const char *when) {
    HarnessScope hs;
    std::vector<JunctionRef *> js = liveJunctions();
    std::map<JunctionRef *, int> jidx; for (size_t i = 0; i < js.size(); i++) jidx[js[i]] = (int)i;
    int nj = (int)js.size();
    std::vector<int> par(nj); for (int i = 0; i < nj; i++) par[i] = i;
    std::function<int(int)> find = [&](int x) { while (par[x] != x) x = par[x] = par[par[x]]; return x; };
    std::vector<int> jjEdges(nj, 0);
    std::vector<std::multiset<std::pair<unsigned, unsigned>>> terms(nj);
    std::vector<std::pair<int, int>> jj;
    std::string mode = majorImprove ? ":adding-and-deleting-junctions" : "";
    for (ConnRef *c : router->connRefs) {
        std::pair<ConnEnd, ConnEnd> ce = c->endpointConnEnds();
        JunctionRef *j1 = ce.first.junction(), *j2 = ce.second.junction();
        ShapeRef *s1 = ce.first.shape(), *s2 = ce.second.shape();
        if (!j1 && !j2 && !(s1 && s2 && false)) {
            // a connector without a junction end: either not part of a hyperedge, or a terminal that lost its junction
            if ((s1 && !s2 && !j2) || (s2 && !s1 && !j1)) { violate("C12", "attached", "connector-end-dangling" + mode, fmt("conn %u after %s: one end on a shape, the other attached to nothing", c->id(), when)); return; }
            continue;
        }
        for (int e = 0; e < 2; e++) {
            const ConnEnd &x = e ? ce.second : ce.first;
            if (!x.junction() && !x.shape()) { violate("C12", "attached", "connector-end-dangling" + insideClass() + mode, fmt("conn %u end %d after %s is attached to nothing (type %d)", c->id(), e, when, (int)x.type())); return; }
            if (x.junction() && !jidx.count(x.junction())) { violate("C12", "attached", "connector-attached-to-deleted-junction" + insideClass() + mode, fmt("conn %u end %d after %s;%s", c->id(), e, when, describe().c_str())); return; }
        }
        if (j1 && j2) jj.push_back({jidx[j1], jidx[j2]});
        // route ends = the two attachment positions, as an unordered pair; a junction the improver moved is at recommendedPosition()
        const PolyLine &d = c->displayRoute();
        // a junction placed on top of a terminal gives a zero-length connector whose route is a single point: degenerate but consistent
        if (d.size() < 1) {
            // classifier: the rerouter put a junction inside the shape this terminal is attached to, so the route is clipped away entirely
            std::string cls;
            for (int e = 0; e < 2; e++) {
                const ConnEnd &x = e ? ce.second : ce.first, &y = e ? ce.first : ce.second;
                if (x.shape() && y.junction()) {
                    auto it = shapes.find((int)x.shape()->id());
                    if (it != shapes.end()) {
                        const RectB &b = it->second.box;
                        for (Point q : {y.junction()->position(), y.junction()->recommendedPosition()})
                            if (q.x >= b.x && q.x <= b.x + b.w && q.y >= b.y && q.y <= b.y + b.h) cls = ":junction-placed-inside-the-terminal-shape";
                    }
                }
            }
            violate("C12", "route", "hyperedge-connector-has-no-route" + cls + mode, fmt("conn %u after %s", c->id(), when)); return;
        }
        if (d.size() == 1) probe("hyper.zero-length-connector");
        Point a = d.ps.front(), b = d.ps.back();
        auto eq = [](Point u, Point v) { return std::fabs(u.x - v.x) < 1e-6 && std::fabs(u.y - v.y) < 1e-6; };
        auto m = [&](Point u, const ConnEnd &x) {
            if (x.junction()) return eq(u, x.junction()->position()) || eq(u, x.junction()->recommendedPosition());
            if (x.shape()) {
                auto it = shapes.find((int)x.shape()->id());
                if (it == shapes.end()) return false;
                const RectB &b = it->second.box;
                // a terminal's route may be clipped at the boundary of the shape it is attached to: "at the object" = on or inside its rectangle
                return u.x >= b.x - 1e-6 && u.x <= b.x + b.w + 1e-6 && u.y >= b.y - 1e-6 && u.y <= b.y + b.h + 1e-6;
            }
            return eq(u, x.position());
        };
        bool ok = (m(a, ce.first) && m(b, ce.second)) || (m(a, ce.second) && m(b, ce.first));
        if (!ok) { violate("C12", "route", "route-does-not-run-between-its-attachments" + insideClass() + mode, fmt("conn %u after %s: (%g,%g)..(%g,%g) vs (%g,%g),(%g,%g)", c->id(), when, a.x, a.y, b.x, b.y, ce.first.position().x, ce.first.position().y, ce.second.position().x, ce.second.position().y) + describe()); return; }
    }
    // union junctions; a repeated union is a cycle
    for (auto &e : jj) { int a = find(e.first), b = find(e.second); if (a == b) { violate("C12", "tree", "cycle-among-junctions" + insideClass() + mode, when); return; } par[a] = b; }
    for (ConnRef *c : router->connRefs) {
        std::pair<ConnEnd, ConnEnd> ce = c->endpointConnEnds();
        for (int e = 0; e < 2; e++) {
            const ConnEnd &x = e ? ce.second : ce.first, &y = e ? ce.first : ce.second;
            if (x.shape() && y.junction() && jidx.count(y.junction())) terms[find(jidx[y.junction()])].insert({x.shape()->id(), x.pinClassId()});
        }
    }
    std::vector<std::multiset<std::pair<unsigned, unsigned>>> comps;
    for (int i = 0; i < nj; i++) if (find(i) == i) comps.push_back(terms[i]);
    // every expected hyperedge is exactly one component; no component is left over
    std::vector<bool> used(comps.size(), false);
    for (size_t h = 0; h < expected.size(); h++) {
        bool found = false;
        for (size_t k = 0; k < comps.size() && !found; k++) if (!used[k] && comps[k] == expected[h]) { used[k] = true; found = true; }
        if (!found) {
            // classify: split into several trees, or terminals lost
            size_t have = 0; for (size_t k = 0; k < comps.size(); k++) if (!used[k]) for (auto &t : comps[k]) if (expected[h].count(t)) { have++; }
            std::string sig = have >= expected[h].size() ? "hyperedge-split-into-several-trees" + insideClass() : "terminal-dropped";
            if (have < expected[h].size()) {
                // classifier: the rerouter put a junction on the pin of (inside the shape of) the terminal that is missing,
                // and omitted the zero-length connector
                std::multiset<std::pair<unsigned, unsigned>> missing = expected[h];
                for (size_t k = 0; k < comps.size(); k++) if (!used[k]) for (auto &t : comps[k]) { auto it = missing.find(t); if (it != missing.end()) missing.erase(it); }
                bool allInside = !missing.empty();
                for (auto &t : missing) {
                    auto it = shapes.find((int)t.first);
                    bool inside = false;
                    if (it != shapes.end()) { const RectB &b = it->second.box; for (JunctionRef *j : js) for (Point q : {j->position(), j->recommendedPosition()}) if (q.x >= b.x && q.x <= b.x + b.w && q.y >= b.y && q.y <= b.y + b.h) inside = true; }
                    if (!inside) allInside = false;
                }
                if (allInside) sig += ":junction-placed-inside-the-terminal-shape";
                else sig += insideClass();
            }
            violate("C12", "terminals", sig + mode, fmt("hyperedge %zu after %s: expected %zu terminals in one tree, found %zu of them over %zu component(s), %d junction(s);%s", h, when, expected[h].size(), have, comps.size(), nj, describe().c_str()));
            return;
        }
    }
    for (size_t k = 0; k < comps.size(); k++) if (!used[k]) { violate("C12", "tree", (comps[k].empty() ? "junction-left-without-terminals" : "extra-tree-with-terminals") + insideClass() + mode, fmt("after %s: %zu components for %zu hyperedges", when, comps.size(), expected.size())); return; }
    probe("hyper.c12-evaluated");
}

void HyperSession::run() {
    const Json &cfg = spec["cfg"];
    majorImprove = cfg.boolean("major", false);
    std::string ex = guarded([&] {
        router = new HyperRouter(OrthogonalRouting); router->s = this;
        router->setRoutingParameter(segmentPenalty, cfg.num("segmentPenalty", 50));
        router->setRoutingParameter(idealNudgingDistance, cfg.num("nudge", 5));
        if (cfg.has("minor")) router->setRoutingOption(improveHyperedgeRoutesMovingJunctions, cfg.boolean("minor", true));
        if (majorImprove) router->setRoutingOption(improveHyperedgeRoutesMovingAddingAndDeletingJunctions, true);
    });
    if (!ex.empty()) { violate("C15", "assert", ex, "hyper setup"); dead = true; }
    const Json &ops = spec["ops"];
    for (size_t oi = 0; oi < ops.size() && !dead; oi++) {
        curOp = (int)oi;
        const Json &op = ops[oi];
        std::string o = op.str("op", "");
        w->log.ev(o.c_str(), id, (long)oi);
        std::string e2;
        if (o == "addShape") {
            int k = (int)op["id"].i();
            if (k <= 0 || shapes.count(k)) continue;
            RectB b{op["rect"][0].num(), op["rect"][1].num(), op["rect"][2].num(), op["rect"][3].num()};
            Sh sh; sh.box = b; sh.alive = true; sh.ref = nullptr;
            e2 = guarded([&] {
                Rectangle rr(Point(b.x, b.y), Point(b.x + b.w, b.y + b.h));
                sh.ref = new ShapeRef(router, rr, (unsigned)k);
                new ShapeConnectionPin(sh.ref, 1, ATTACH_POS_CENTRE, ATTACH_POS_CENTRE, true, 0, ConnDirNone);
                new ShapeConnectionPin(sh.ref, 2, ATTACH_POS_LEFT, ATTACH_POS_CENTRE, true, 5, ConnDirLeft);
                new ShapeConnectionPin(sh.ref, 2, ATTACH_POS_RIGHT, ATTACH_POS_CENTRE, true, 5, ConnDirRight);
                new ShapeConnectionPin(sh.ref, 2, ATTACH_POS_CENTRE, ATTACH_POS_TOP, true, 5, ConnDirUp);
                new ShapeConnectionPin(sh.ref, 2, ATTACH_POS_CENTRE, ATTACH_POS_BOTTOM, true, 5, ConnDirDown);
            });
            shapes[k] = sh;
        } else if (o == "hyperedge") {
            std::multiset<std::pair<unsigned, unsigned>> terms;
            std::vector<JunctionRef *> js;
            if (op.str("via", "junction") == "terminals") {
                // the client only names the terminals; the rerouter creates junctions and connectors in the next transaction
                e2 = guarded([&] {
                    ConnEndList terminals;
                    for (auto &t : op["terminals"].a) {
                        auto it = shapes.find((int)t[0].i());
                        if (it == shapes.end() || !it->second.alive) continue;
                        terminals.push_back(ConnEnd(it->second.ref, (unsigned)t[1].i()));
                        terms.insert({(unsigned)t[0].i(), (unsigned)t[1].i()});
                    }
                    if (terminals.size() >= 2) { router->hyperedgeRerouter()->registerHyperedgeForRerouting(terminals); registeredThisTxn++; }
                });
                // connectors created from a bare terminal list have no client-side ends to inherit (their terminal ends are empty by
                // construction): the tree/attachment clauses of C12 speak of hyperedges that had attached terminals before -> not judged
                if (terms.size() >= 2 && e2.empty()) { viaTerminals = true; probe("hyper.hyperedge-created-from-terminal-list-not-judged"); }
            } else {
            e2 = guarded([&] {
                for (auto &jp : op["junctions"].a) js.push_back(new JunctionRef(router, Point(jp[0].num(), jp[1].num())));
                if (js.empty()) return;
                size_t ti = 0;
                for (auto &t : op["terminals"].a) {
                    int sid = (int)t[0].i(); unsigned cls = (unsigned)t[1].i();
                    auto it = shapes.find(sid);
                    if (it == shapes.end() || !it->second.alive) continue;
                    size_t jx = op["tj"][ti].i(0) % (long)js.size(); ti++;
                    new ConnRef(router, ConnEnd(it->second.ref, cls), ConnEnd(js[jx]));
                    terms.insert({(unsigned)sid, cls});
                }
                for (size_t k = 1; k < js.size(); k++) new ConnRef(router, ConnEnd(js[k - 1]), ConnEnd(js[k]));
            });
            if (terms.size() >= 2) { expected.push_back(terms); probe("hyper.hyperedge-created"); }
            else if (!js.empty() && e2.empty()) { dead = true; }      // degenerate after shrinking: stop judging
            }
        } else if (o == "moveShape") {
            int k = (int)op["id"].i();
            auto it = shapes.find(k);
            if (it == shapes.end() || !it->second.alive) continue;
            it->second.box.x += op.num("dx", 0); it->second.box.y += op.num("dy", 0);
            e2 = guarded([&] { router->moveShape(it->second.ref, op.num("dx", 0), op.num("dy", 0)); });
            probe("hyper.moveShape");
        } else if (o == "moveJunction") {
            std::vector<JunctionRef *> js = liveJunctions();
            if (js.empty()) continue;
            JunctionRef *j = js[(size_t)op.i("k", 0) % js.size()];
            e2 = guarded([&] { router->moveJunction(j, Point(op["pt"][0].num(), op["pt"][1].num())); });
            probe("hyper.moveJunction");
        } else if (o == "fixRoute") {
            // the client pins the current route of one connector of the scene (ConnRef::setFixedExistingRoute): improvement must
            // leave that connector, and the junction it ends in, where they are
            if (viaTerminals) continue;
            std::vector<ConnRef *> cs; { HarnessScope hs; for (ConnRef *c : router->connRefs) if (c->route().size() >= 2 && !c->hasFixedRoute()) cs.push_back(c); }
            if (cs.empty()) continue;
            ConnRef *c = cs[(size_t)op.i("k", 0) % cs.size()];
            e2 = guarded([&] { c->setFixedExistingRoute(); });
            probe("hyper.fixRoute");
        } else if (o == "reroute") {
            std::vector<JunctionRef *> js = liveJunctions();
            if (js.empty() || viaTerminals) continue;
            if (op.str("by", "junction") == "junction") {
                JunctionRef *j = js[(size_t)op.i("k", 0) % js.size()];
                e2 = guarded([&] { router->hyperedgeRerouter()->registerHyperedgeForRerouting(j); registeredThisTxn++; });
                probe("hyper.reroute-by-junction");
            } else continue;
        } else if (o == "process") {
            checks = 0;
            bool ret = false;
            { HarnessScope hs; idBefore.clear(); for (Obstacle *ob : router->m_obstacles) if (JunctionRef *j = dynamic_cast<JunctionRef *>(ob)) idBefore[j] = j->id(); for (ConnRef *c : router->connRefs) idBefore[c] = c->id(); }
            e2 = guarded([&] { ret = router->processTransaction(); });
            if (e2.empty()) {
                probe("hyper.transaction");
                collectLists();
                std::vector<double> out;
                { HarnessScope hs; for (ConnRef *c : router->connRefs) for (auto &p : c->displayRoute().ps) { out.push_back(p.x); out.push_back(p.y); } }
                record(out, true);
                if (armed("C12") && !expected.empty() && !viaTerminals && judging) {
                    size_t nv = w->violations.size();
                    check("process");
                    if (w->violations.size() != nv) judging = false;     // the hyperedge no longer matches the model: later transactions would only repeat the same defect
                }
            }
        } else continue;
        if (!e2.empty()) {
            w->fault("exception"); probe(e2.c_str());
            violate("C15", "assert", e2, fmt("during hyperedge %s", o.c_str()));
            if (!viaTerminals) violate("C12", "threw", "hyperedge-op-threw:" + e2, o);
            dead = true; break;
        }
        yield("op");
    }
    curOp = -1;
    if (!dead) { std::string e3 = guarded([&] { delete router; }); if (!e3.empty()) violate("C15", "assert", e3, "delete hyperedge router"); }
}
static Session *mkHyper() { return new HyperSession(); }
static SessionRegistrar rh1("hyperedge", mkHyper);

Json genHyperSession(Rng &r, const std::string &tier) {
    Json s = Json::obj(); s.set("kind", "hyperedge");
    Json cfg = Json::obj();
    bool major = r.chance(0.4);
    cfg.set("major", major);
    if (r.chance(0.2)) cfg.set("minor", false);
    cfg.set("segmentPenalty", r.pick(std::vector<double>{10, 50}));
    cfg.set("nudge", r.pick(std::vector<double>{0, 5, 10}));
    cfg.set("style", major ? "hyperedge+adding-deleting-junctions" : "hyperedge");
    s.set("cfg", cfg);
    Json ops = Json::arr();
    std::vector<RectB> rs; std::vector<int> ids;
    int n = r.range(4, tier == "thorough" ? 9 : 7);
    for (int i = 0; i < n; i++) for (int t = 0; t < 80; t++) {
        RectB c{(double)r.below(50) * 10, (double)r.below(40) * 10, (double)(30 + r.below(5) * 10), (double)(30 + r.below(4) * 10)};
        bool ok = true; for (auto &o : rs) if (rectsOverlap(c, o, 40)) ok = false;
        if (ok) { rs.push_back(c); ids.push_back((int)rs.size()); Json o = Json::obj(); o.set("op", "addShape"); o.set("id", (long)rs.size()); Json rj = Json::arr(); rj.push(c.x); rj.push(c.y); rj.push(c.w); rj.push(c.h); o.set("rect", rj); ops.push(o); break; }
    }
    n = (int)rs.size();
    std::vector<Pt> jpts;
    auto freept = [&]() {
        for (int t = 0; t < 300; t++) {
            Pt p{(double)r.below(55) * 10, (double)r.below(45) * 10};
            bool ok = true;
            for (auto &o : rs) if (p.x >= o.x - 15 && p.x <= o.x + o.w + 15 && p.y >= o.y - 15 && p.y <= o.y + o.h + 15) ok = false;
            for (auto &q : jpts) if (std::fabs(q.x - p.x) < 20 && std::fabs(q.y - p.y) < 20) ok = false;
            if (ok) { jpts.push_back(p); return p; }
        }
        Pt p{-60.0 - 20 * jpts.size(), -60}; jpts.push_back(p); return p;
    };
    // 1-2 hyperedges over disjoint terminal sets (class 2 side pins are exclusive: at most 4 per shape; keep one per shape and class)
    int nh = n >= 6 && r.chance(0.35) ? 2 : 1;
    std::vector<int> order(n); for (int i = 0; i < n; i++) order[i] = i;
    for (int i = n - 1; i > 0; i--) std::swap(order[i], order[r.below(i + 1)]);
    int pos = 0;
    for (int h = 0; h < nh; h++) {
        int cnt = nh == 1 ? r.range(3, n) : r.range(3, std::max(3, n / 2));
        Json o = Json::obj(); o.set("op", "hyperedge");
        Json terms = Json::arr(), tj = Json::arr(), js = Json::arr();
        int nj = (cnt >= 4 && r.chance(0.35)) ? 2 : 1;
        for (int k = 0; k < nj; k++) { Pt p = freept(); Json pj = Json::arr(); pj.push(p.x); pj.push(p.y); js.push(pj); }
        for (int k = 0; k < cnt && pos < n; k++, pos++) { Json t = Json::arr(); t.push((long)ids[order[pos]]); t.push((long)(r.chance(0.7) ? 1 : 2)); terms.push(t); tj.push((long)(k < 2 * nj ? k % nj : (int)r.below(nj))); }
        o.set("terminals", terms); o.set("tj", tj); o.set("junctions", js);
        if (r.chance(0.25)) o.set("via", "terminals");
        if (terms.size() >= 3) ops.push(o);
    }
    auto proc = [&]() { Json o = Json::obj(); o.set("op", "process"); ops.push(o); };
    proc();
    if (r.chance(0.5)) proc();
    {
        // side stream: one connector gets its route fixed after the first transactions; from then on only shapes that carry no
        // terminal are moved (a moved junction or terminal would leave the fixed route behind by the client's own doing)
        Rng r2(Rng::mix(r.s, "fixed-route-in-hyperedge"));
        if (r2.chance(0.2) && pos < n) {
            Json f = Json::obj(); f.set("op", "fixRoute"); f.set("k", (long)r2.below(8)); ops.push(f);
            int st2 = r2.range(1, 3);
            for (int st = 0; st < st2; st++) {
                int i = order[(size_t)(pos + (int)r2.below((uint64_t)(n - pos)))]; RectB c = rs[(size_t)i];
                double dx = 10 * (double)r2.range(-4, 4), dy = 10 * (double)r2.range(-4, 4);
                c.x += dx; c.y += dy;
                bool ok = true;
                for (int k = 0; k < n; k++) if (k != i && rectsOverlap(c, rs[(size_t)k], 40)) ok = false;
                for (auto &q : jpts) if (q.x >= c.x - 15 && q.x <= c.x + c.w + 15 && q.y >= c.y - 15 && q.y <= c.y + c.h + 15) ok = false;
                if (!ok) { dx = 0; dy = 0; } else rs[(size_t)i] = c;
                Json o = Json::obj(); o.set("op", "moveShape"); o.set("id", (long)ids[(size_t)i]); o.set("dx", dx); o.set("dy", dy); ops.push(o);
                proc();
            }
            s.set("ops", ops);
            Json cfg2 = s["cfg"]; cfg2.set("style", cfg2.str("style", "") + "+fixed-route"); s.set("cfg", cfg2);
            return s;
        }
    }
    int steps = r.range(1, 6);
    for (int st = 0; st < steps; st++) {
        int what = (int)r.below(10);
        if (what < 5) {
            int i = (int)r.below(n); RectB c = rs[i];
            double dx = 10 * (double)r.range(-5, 5), dy = 10 * (double)r.range(-5, 5);
            c.x += dx; c.y += dy;
            bool ok = true;
            for (int k = 0; k < n; k++) if (k != i && rectsOverlap(c, rs[k], 40)) ok = false;
            for (auto &q : jpts) if (q.x >= c.x - 15 && q.x <= c.x + c.w + 15 && q.y >= c.y - 15 && q.y <= c.y + c.h + 15) ok = false;
            if (ok) { rs[i] = c; Json o = Json::obj(); o.set("op", "moveShape"); o.set("id", (long)ids[i]); o.set("dx", dx); o.set("dy", dy); ops.push(o); }
        } else if (what < 7) {
            Json o = Json::obj(); o.set("op", "reroute"); o.set("by", "junction"); o.set("k", (long)r.below(4)); o.set("h", (long)r.below(2)); ops.push(o);
        } else if (what < 9) {
            Pt p = freept(); Json o = Json::obj(); o.set("op", "moveJunction"); o.set("k", (long)r.below(4)); Json pj = Json::arr(); pj.push(p.x); pj.push(p.y); o.set("pt", pj); ops.push(o);
        }
        proc();
        if (r.chance(0.3)) proc();
    }
    s.set("ops", ops);
    return s;
}
static Json genC12(const std::string &prop, uint64_t seed, const std::string &tier) {
    Rng r(Rng::mix(seed, "plan"));
    Json p = planSkeleton(prop, "router", seed, r, 200);
    Json ss = Json::arr();
    ss.push(genHyperSession(r, tier));
    if (r.chance(0.3)) ss.push(r.chance(0.5) ? genHyperSession(r, "quick") : genSolverSession(r, "quick", 1));
    p.set("sessions", ss);
    return p;
}
static GenRegistrar g12("C12", genC12);
static Json mixHyper(Rng &r, const std::string &tier, bool) { return genHyperSession(r, tier); }
static MixGenRegistrar mgh(mixHyper);
