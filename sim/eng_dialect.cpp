// E-DIALECT: graph sessions (doHOLA, peel + symmetric tree layout, connected
// components, leafless routing + planarisation).  These are one-shot pipelines;
// what the simulator varies is the heap (pointer-ordered sets), the process
// global id counters (every session in a world shifts them for the next) and
// interleaving with other sessions.  Serves C14, C19 (+C15, C20).
#include "core.h"
#include "sigs.h"
#include "mix_gen.h"
#include "libvpsc/assertions.h"
#include "libdialect/commontypes.h"
#include "libdialect/io.h"
#include "libdialect/util.h"
#include "libdialect/graphs.h"
#include "libdialect/opts.h"
#include "libdialect/hola.h"
#include "libdialect/peeling.h"
#include "libdialect/trees.h"
#include "libdialect/routing.h"
#include "libdialect/planarise.h"
#include <sstream>
#include <array>

using namespace dialect;

struct GraphSession : Session {
    std::vector<std::array<double, 4>> nodes;     // x y w h (centre x,y)
    std::vector<std::pair<int, int>> edges;
    std::string tglf() {
        std::ostringstream t;
        for (size_t i = 0; i < nodes.size(); i++) t << i << " " << nodes[i][0] << " " << nodes[i][1] << " " << nodes[i][2] << " " << nodes[i][3] << "\n";
        t << "#\n";
        for (auto &e : edges) t << e.first << " " << e.second << "\n";
        return t.str();
    }
    std::string guarded(const std::function<void()> &fn) {
        try { LibScope ls; fn(); }
        catch (vpsc::CriticalFailure &f) { HarnessScope hs; return assertSig(f); }
        catch (std::runtime_error &e) { HarnessScope hs; std::string w = e.what(); return "runtime_error:" + w.substr(0, 40); }
        catch (std::exception &e) { return "std::exception"; }
        catch (const char *) { return "char*"; }
        catch (...) { return "unknown-exception"; }
        return "";
    }
    void opHola(const Json &op);
    void opPeel(const Json &op);
    void opPlanarise(const Json &op);
    void opComponents(const Json &op);
    void run() override;
};

void GraphSession::opHola(const Json &op) {
    Graph_SP g;
    double PAD = 0;
    size_t n = nodes.size(), m = edges.size();
    std::string ex = guarded([&] {
        { std::string src = tglf(); g = buildGraphFromTglf(src); }
        HolaOpts opts;
        if (op.has("useACAforLinks")) opts.useACAforLinks = op.boolean("useACAforLinks", opts.useACAforLinks);
        if (op.has("do_near_align")) opts.do_near_align = op.boolean("do_near_align", opts.do_near_align);
        if (op.has("preferredAspectRatio")) opts.preferredAspectRatio = (AspectRatioClass)(op.i("preferredAspectRatio", 2) % 3);
        if (op.has("preferredTreeGrowthDir")) opts.preferredTreeGrowthDir = (CardinalDir)(op.i("preferredTreeGrowthDir", 1) & 3);
        if (op.has("preferConvexTrees")) opts.preferConvexTrees = op.boolean("preferConvexTrees", opts.preferConvexTrees);
        if (op.has("defaultTreeGrowthDir")) opts.defaultTreeGrowthDir = (CardinalDir)(op.i("defaultTreeGrowthDir", 1) & 3);
        PAD = opts.nodePaddingScalar * g->getIEL() + 1e-6;
        doHOLA(*g, opts);
    });
    if (!ex.empty()) {
        if (ex.rfind("runtime_error:", 0) == 0) { probe("dialect.hola-refused"); w->fault("exception"); return; }     // a refusal, not a result
        probe(ex.c_str()); w->fault("exception");
        violate("C15", "assert", ex, "during doHOLA");
        violate("C14", "threw", "doHOLA-threw:" + ex, "");
        return;
    }
    HarnessScope hs;
    probe("dialect.hola");
    std::vector<double> out;
    std::vector<Node_SP> ns;
    for (auto &p : g->getNodeLookup()) ns.push_back(p.second);
    std::map<unsigned, Node_SP> byExt;
    for (auto &u : ns) byExt[u->getExternalId()] = u;
    for (auto &kv : byExt) { auto c = kv.second->getCentre(); out.push_back(c.x); out.push_back(c.y); }
    record(out, false);
    if (!armed("C14")) return;
    if (g->getNumNodes() != n) { violate("C14", "same-graph", "node-count-changed", fmt("%zu -> %zu", n, (size_t)g->getNumNodes())); return; }
    if (g->getNumEdges() != m) { violate("C14", "same-graph", "edge-count-changed", fmt("%zu -> %zu", m, (size_t)g->getNumEdges())); return; }
    std::set<std::pair<unsigned, unsigned>> want, have;
    for (auto &e : edges) want.insert({(unsigned)std::min(e.first, e.second), (unsigned)std::max(e.first, e.second)});
    for (auto &p : g->getEdgeLookup()) { unsigned a = p.second->getSourceEnd()->getExternalId(), b = p.second->getTargetEnd()->getExternalId(); have.insert({std::min(a, b), std::max(a, b)}); }
    if (want != have) { violate("C14", "same-graph", "edge-set-changed", ""); return; }
    for (auto &u : ns) {
        unsigned ext = u->getExternalId(); auto d = u->getDimensions();
        if (ext >= n || std::fabs(d.first - nodes[ext][2]) > 1e-9 || std::fabs(d.second - nodes[ext][3]) > 1e-9) { violate("C14", "sizes", "node-size-changed", fmt("node %u: %gx%g", ext, d.first, d.second)); return; }
    }
    for (size_t i = 0; i < ns.size(); i++) for (size_t j = i + 1; j < ns.size(); j++) {
        auto a = ns[i]->getBoundingBox(), b = ns[j]->getBoundingBox();
        double ox = std::min(a.X, b.X) - std::max(a.x, b.x), oy = std::min(a.Y, b.Y) - std::max(a.y, b.y);
        if (ox > 1e-3 && oy > 1e-3) {
            // classes: for an input that is one tree the growth direction is known, so nodes of one rank (same coordinate
            // along the growth axis: the transverse placement failed) are told from nodes of different ranks (the rank
            // separation, a multiple of the ideal edge length, is smaller than the nodes are long)
            std::string cls;
            if (edges.size() + 1 == nodes.size()) {
                CardinalDir gd = op.has("defaultTreeGrowthDir") ? (CardinalDir)(op.i("defaultTreeGrowthDir", 1) & 3) : CardinalDir::SOUTH;
                bool vertical = gd == CardinalDir::SOUTH || gd == CardinalDir::NORTH;
                auto ca = ns[i]->getCentre(), cb = ns[j]->getCentre();
                double dg = vertical ? std::fabs(ca.y - cb.y) : std::fabs(ca.x - cb.x);
                cls = dg > 1e-6 ? ":tree-nodes-of-different-ranks" : ":tree-nodes-of-one-rank";
            }
            violate("C14", "no-overlap", "nodes-overlap" + cls, fmt("nodes %u,%u overlap %g x %g", ns[i]->getExternalId(), ns[j]->getExternalId(), ox, oy)); return;
        }
    }
    for (auto &p : g->getEdgeLookup()) {
        Edge_SP e = p.second;
        std::vector<Avoid::Point> rt = e->getRoute();
        unsigned ea = e->getSourceEnd()->getExternalId(), eb = e->getTargetEnd()->getExternalId();
        if (rt.size() < 2) { violate("C14", "routes", "edge-has-no-route", fmt("edge %u-%u: %zu points", ea, eb, rt.size())); return; }
        for (size_t k = 1; k < rt.size(); k++) {
            if (std::fabs(rt[k].x - rt[k - 1].x) > 1e-6 && std::fabs(rt[k].y - rt[k - 1].y) > 1e-6) { 
                auto ba = e->getSourceEnd()->getBoundingBox(), bb = e->getTargetEnd()->getBoundingBox();
                std::string rs; for (auto &q : rt) rs += fmt("(%g,%g)", q.x, q.y);
                // class: an edge of the core (both ends survive the peeling of leaves) or an edge of a hanging tree
                std::string ecls;
                { std::map<unsigned, std::set<unsigned>> adj; for (auto &ed : edges) { adj[(unsigned)ed.first].insert((unsigned)ed.second); adj[(unsigned)ed.second].insert((unsigned)ed.first); }
                  bool again = true; while (again) { again = false; for (auto it = adj.begin(); it != adj.end();) { if (it->second.size() <= 1) { for (unsigned v : it->second) adj[v].erase(it->first); it = adj.erase(it); again = true; } else ++it; } }
                  ecls = adj.count(ea) && adj.count(eb) ? ":edge-of-the-core" : ":tree-edge"; }
                violate("C14", "routes", "diagonal-route-segment" + ecls, fmt("edge %u-%u route %s; node %u [%g,%g]x[%g,%g] node %u [%g,%g]x[%g,%g]", ea, eb, rs.c_str(), ea, ba.x, ba.X, ba.y, ba.Y, eb, bb.x, bb.X, bb.y, bb.Y)); return; }
            double mx0 = std::min(rt[k].x, rt[k - 1].x), mx1 = std::max(rt[k].x, rt[k - 1].x), my0 = std::min(rt[k].y, rt[k - 1].y), my1 = std::max(rt[k].y, rt[k - 1].y);
            for (auto &u : ns) {
                if (u->id() == e->getSourceEnd()->id() || u->id() == e->getTargetEnd()->id()) continue;
                auto b = u->getBoundingBox();
                bool vertical = mx1 - mx0 < 1e-9;
                bool through = vertical ? (mx0 > b.x + 1e-3 && mx0 < b.X - 1e-3 && std::min(my1, b.Y) - std::max(my0, b.y) > 1e-3)
                                        : (my0 > b.y + 1e-3 && my0 < b.Y - 1e-3 && std::min(mx1, b.X) - std::max(mx0, b.x) > 1e-3);
                if (through) { violate("C14", "routes", "route-through-another-node", fmt("edge %u-%u through node %u", ea, eb, u->getExternalId())); return; }
            }
        }
        auto sb = e->getSourceEnd()->getBoundingBox(), tb = e->getTargetEnd()->getBoundingBox();
        auto in = [&](Avoid::Point q, BoundingBox b) { return q.x >= b.x - PAD && q.x <= b.X + PAD && q.y >= b.y - PAD && q.y <= b.Y + PAD; };
        if (!((in(rt.front(), sb) && in(rt.back(), tb)) || (in(rt.front(), tb) && in(rt.back(), sb)))) { violate("C14", "routes", "route-ends-not-at-its-end-nodes", fmt("edge %u-%u (padding %g)", ea, eb, PAD)); return; }
    }
    // the separation constraints returned with the graph hold for the returned positions (evaluated from the SepPairs'
    // own definition: src/tgt node ids, gap sign = direction, BDRY gaps add the half extents plus the extra boundary gap)
    {
        SepMatrix &sm = g->getSepMatrix();
        long nsep = 0;
        for (auto &p : sm.m_sparseLookup) for (auto &q : p.second) {
            SepPair_SP sp = q.second;
            auto ns = g->getNodeLookup().find(sp->src), nt = g->getNodeLookup().find(sp->tgt);
            if (ns == g->getNodeLookup().end() || nt == g->getNodeLookup().end()) continue;
            for (int dim = 0; dim < 2; dim++) {
                SepType st = dim == 0 ? sp->xst : sp->yst;
                if (st == SepType::NONE) continue;
                double gapv = dim == 0 ? sp->xgap : sp->ygap;
                GapType gt = dim == 0 ? sp->xgt : sp->ygt;
                Node_SP L = std::signbit(gapv) ? nt->second : ns->second, R = std::signbit(gapv) ? ns->second : nt->second;
                double gap = std::fabs(gapv);
                if (gt == GapType::BDRY) { auto dl = L->getDimensions(), dr = R->getDimensions(); gap += ((dim == 0 ? dl.first : dl.second) + (dim == 0 ? dr.first : dr.second)) / 2.0 + sm.getExtraBdryGap(); }
                double pl = dim == 0 ? L->getCentre().x : L->getCentre().y, pr = dim == 0 ? R->getCentre().x : R->getCentre().y;
                nsep++;
                bool eq = st == SepType::EQ;
                if (pl + gap > pr + 1e-3 || (eq && std::fabs(pl + gap - pr) > 1e-3)) {
                    // classifier: when the whole input is a tree (empty core) HOLA lays it out with the symmetric tree layout and then
                    // rotates/translates it; the constraints it hands back still describe the tree before that final step
                    std::string tcls = edges.size() + 1 == nodes.size() ? ":input-graph-is-a-tree" : "";
                    violate("C14", "sepmatrix", std::string(gt == GapType::BDRY ? "returned-boundary-separation-violated" : "returned-centre-separation-violated") + tcls,
                            fmt("dim %d: node %u at %g + %g vs node %u at %g (%s)", dim, L->getExternalId(), pl, gap, R->getExternalId(), pr, eq ? "equality" : "inequality"));
                    return;
                }
            }
        }
        if (nsep) probe("dialect.sepmatrix-constraints-evaluated", nsep);
    }
    probe("dialect.c14-evaluated");
}

void GraphSession::opPeel(const Json &op) {
    Graph_SP g; Trees trees;
    std::string ex = guarded([&] { { std::string src = tglf(); g = buildGraphFromTglf(src); } trees = peel(*g); });
    if (!ex.empty()) { probe(ex.c_str()); violate("C15", "assert", ex, "during peel"); violate("C19", "threw", "peel-threw:" + ex, ""); return; }
    HarnessScope hs;
    probe("dialect.peel");
    std::map<id_type, int> count; std::map<id_type, unsigned> ext;
    // graph before peeling, for the external ids
    size_t edgesTotal = g->getNumEdges();
    for (auto &p : g->getNodeLookup()) { count[p.first]++; ext[p.first] = p.second->getExternalId(); }
    std::set<id_type> roots;
    std::vector<double> out;
    out.push_back((double)trees.size()); out.push_back((double)g->getNumNodes());
    for (auto &tr : trees) {
        Graph_SP tg = tr->underlyingGraph();
        if (tg->getNumEdges() != tg->getNumNodes() - 1) { violate("C19", "trees", "peeled-tree-is-not-a-tree", fmt("%zu nodes %zu edges", (size_t)tg->getNumNodes(), (size_t)tg->getNumEdges())); return; }
        edgesTotal += tg->getNumEdges();
        id_type rid = tr->getRootNodeID(); roots.insert(rid);
        for (auto &p : tg->getNodeLookup()) { ext[p.first] = p.second->getExternalId(); if (p.first != rid) count[p.first]++; }
        std::map<id_type, std::vector<id_type>> adj;
        for (auto &q : tg->getEdgeLookup()) { id_type a = q.second->getSourceEnd()->id(), b = q.second->getTargetEnd()->id(); adj[a].push_back(b); adj[b].push_back(a); }
        std::set<id_type> seen; std::vector<id_type> st{rid}; seen.insert(rid);
        while (!st.empty()) { id_type u = st.back(); st.pop_back(); for (id_type v : adj[u]) if (seen.insert(v).second) st.push_back(v); }
        if (seen.size() != tg->getNumNodes()) { violate("C19", "trees", "peeled-tree-is-disconnected", ""); return; }
        out.push_back((double)tg->getNumNodes());
    }
    record(out, true);
    if (!armed("C19")) return;
    bool emptyCore = g->getNumNodes() == 0;
    for (id_type rid : roots) if (!emptyCore && g->getNumNodes() > 1 && !g->getNodeLookup().count(rid)) { violate("C19", "partition", "tree-root-not-in-core", ""); return; }
    if (ext.size() != nodes.size()) { violate("C19", "partition", "node-lost-or-invented-by-peeling", fmt("%zu vs %zu", ext.size(), nodes.size())); return; }
    for (auto &p : ext) {
        int c = count[p.first];
        // a root shared with the core is counted once (in the core); when the core is empty (the input was a tree) the single root is counted nowhere
        if (c != 1 && !(c == 0 && roots.count(p.first) && (emptyCore || g->getNumNodes() <= 1))) { violate("C19", "partition", "node-not-in-exactly-one-part", fmt("node %u appears %d times", p.second, c)); return; }
    }
    if (edgesTotal != edges.size()) { violate("C19", "partition", "edge-not-in-exactly-one-part", fmt("%zu vs %zu", edgesTotal, edges.size())); return; }
    if (g->getNumNodes() > 1) for (auto &p : g->getNodeLookup()) if (p.second->getDegree() == 1) { violate("C19", "core", "core-has-a-degree-one-node", ""); return; }
    // symmetric tree layout: no two tree nodes on top of each other
    for (auto &tr : trees) {
        static const CardinalDir dirs[4] = {CardinalDir::SOUTH, CardinalDir::EAST, CardinalDir::NORTH, CardinalDir::WEST};
        CardinalDir gd = dirs[op.i("growth", 0) & 3];
        bool convex = op.i("convex", 0) != 0;
        // rankSep is a centre-to-centre distance chosen by the caller: keep ranks apart along the growth axis, so that
        // any overlap left is the transverse placement's doing (which is what the layout is responsible for)
        double rankSep = 40;
        for (auto &p : tr->underlyingGraph()->getNodeLookup()) { auto d = p.second->getDimensions(); rankSep = std::max(rankSep, ((op.i("growth", 0) & 1) ? d.first : d.second) + 10); }
        std::string e2 = guarded([&] { tr->symmetricLayout(gd, 10, rankSep, convex); });
        if (!e2.empty()) { violate("C19", "threw", "symmetricLayout-threw:" + e2, ""); return; }
        std::set<std::pair<long, long>> pos;
        std::vector<std::array<double, 5>> boxes;
        for (auto &p : tr->underlyingGraph()->getNodeLookup()) {
            auto c = p.second->getCentre();
            if (!pos.insert({lround(c.x * 1000), lround(c.y * 1000)}).second) { violate("C19", "symmetric-layout", "two-tree-nodes-coincide", ""); return; }
            auto d = p.second->getDimensions();
            boxes.push_back({c.x - d.first / 2, c.x + d.first / 2, c.y - d.second / 2, c.y + d.second / 2, (double)p.first});
        }
        // "on top of each other" also read as: the boxes of two tree nodes share interior area
        for (size_t a = 0; a < boxes.size(); a++) for (size_t b = a + 1; b < boxes.size(); b++) {
            double ox = std::min(boxes[a][1], boxes[b][1]) - std::max(boxes[a][0], boxes[b][0]);
            double oy = std::min(boxes[a][3], boxes[b][3]) - std::max(boxes[a][2], boxes[b][2]);
            if (ox > 1e-6 && oy > 1e-6) { violate("C19", "symmetric-layout", "two-tree-nodes-overlap", fmt("nodes %d and %d overlap by %g x %g (growth %ld)", (int)boxes[a][4], (int)boxes[b][4], ox, oy, (long)(op.i("growth", 0) & 3))); return; }
        }
        probe("dialect.c19-symmetric-layout-evaluated");
    }
    probe("dialect.c19-peel-evaluated");
}

void GraphSession::opComponents(const Json &) {
    Graph_SP g; std::vector<Graph_SP> comps;
    std::string ex = guarded([&] { { std::string src = tglf(); g = buildGraphFromTglf(src); } comps = g->getConnComps(); });
    if (!ex.empty()) { probe(ex.c_str()); violate("C15", "assert", ex, "during getConnComps"); return; }
    HarnessScope hs;
    probe("dialect.components");
    std::map<unsigned, int> seen; size_t ecount = 0;
    std::vector<double> out; out.push_back((double)comps.size());
    for (auto &c : comps) {
        for (auto &p : c->getNodeLookup()) seen[p.second->getExternalId()]++;
        ecount += c->getNumEdges();
        // connected?
        std::map<id_type, std::vector<id_type>> adj;
        for (auto &q : c->getEdgeLookup()) { id_type a = q.second->getSourceEnd()->id(), b = q.second->getTargetEnd()->id(); adj[a].push_back(b); adj[b].push_back(a); }
        if (c->getNumNodes() > 0) {
            id_type s0 = c->getNodeLookup().begin()->first;
            std::set<id_type> vis{s0}; std::vector<id_type> st{s0};
            while (!st.empty()) { id_type u = st.back(); st.pop_back(); for (id_type v : adj[u]) if (vis.insert(v).second) st.push_back(v); }
            if (vis.size() != c->getNumNodes() && armed("C19")) { violate("C19", "components", "component-is-not-connected", ""); return; }
        }
    }
    record(out, true);
    if (!armed("C19")) return;
    if (seen.size() != nodes.size()) { violate("C19", "components", "components-do-not-cover-the-nodes", fmt("%zu vs %zu", seen.size(), nodes.size())); return; }
    for (auto &kv : seen) if (kv.second != 1) { violate("C19", "components", "node-in-several-components", ""); return; }
    if (ecount != edges.size()) { violate("C19", "components", "edges-not-partitioned-by-components", fmt("%zu vs %zu", ecount, edges.size())); return; }
    // cross-check the number of components with a union-find over the input
    std::vector<int> par(nodes.size()); for (size_t i = 0; i < par.size(); i++) par[i] = (int)i;
    std::function<int(int)> find = [&](int x) { while (par[x] != x) x = par[x] = par[par[x]]; return x; };
    for (auto &e : edges) par[find(e.first)] = find(e.second);
    size_t nc = 0; for (size_t i = 0; i < par.size(); i++) if (find((int)i) == (int)i) nc++;
    if (nc != comps.size()) { violate("C19", "components", "wrong-number-of-components", fmt("%zu vs %zu", comps.size(), nc)); return; }
    probe("dialect.c19-components-evaluated");
}

void GraphSession::opPlanarise(const Json &) {
    Graph_SP g, Q;
    std::map<id_type, unsigned> ext;
    std::string ex = guarded([&] {
        { std::string src = tglf(); g = buildGraphFromTglf(src); }
        for (auto &p : g->getNodeLookup()) ext[p.first] = p.second->getExternalId();
        HolaOpts opts;
        LeaflessOrthoRouter lor(g, opts);
        lor.setShapeBufferDistanceIELScalar(0.125);
        lor.route();
        OrthoPlanariser op(g);
        Q = op.planarise();
    });
    if (!ex.empty()) { probe(ex.c_str()); w->fault("exception"); violate("C15", "assert", ex, "during leafless routing / planarise"); violate("C19", "threw", "planarise-threw:" + ex, ""); return; }
    HarnessScope hs;
    probe("dialect.planarise");
    {
        // observable result, independent of the (process-global) node ids: node positions and edges as coordinate pairs, sorted
        std::vector<std::pair<double, double>> np;
        for (auto &p : Q->getNodeLookup()) { auto c = p.second->getCentre(); np.push_back({c.x, c.y}); }
        std::sort(np.begin(), np.end());
        std::vector<std::array<double, 4>> ep;
        for (auto &p : Q->getEdgeLookup()) { auto a = p.second->getSourceEnd()->getCentre(), b = p.second->getTargetEnd()->getCentre(); std::array<double, 4> e{a.x, a.y, b.x, b.y}; if (std::make_pair(e[2], e[3]) < std::make_pair(e[0], e[1])) e = {b.x, b.y, a.x, a.y}; ep.push_back(e); }
        std::sort(ep.begin(), ep.end());
        std::vector<double> out;
        for (auto &q : np) { out.push_back(q.first); out.push_back(q.second); }
        for (auto &e : ep) for (double v : e) out.push_back(v);
        record(out, false);
    }
    if (!armed("C19")) return;
    for (auto &p : ext) if (!Q->getNodeLookup().count(p.first)) { violate("C19", "planarise", "original-node-missing-after-planarise", fmt("node %u", p.second)); return; }
    struct Seg { double x0, y0, x1, y1; };
    std::vector<Seg> segs;
    for (auto &p : Q->getEdgeLookup()) {
        Edge_SP e = p.second; std::vector<Avoid::Point> pts = e->getRoute();
        if (pts.size() < 2) { pts.clear(); pts.push_back(e->getSourceEnd()->getCentre()); pts.push_back(e->getTargetEnd()->getCentre()); }
        for (size_t k = 1; k < pts.size(); k++) segs.push_back({pts[k - 1].x, pts[k - 1].y, pts[k].x, pts[k].y});
    }
    auto o = [](double ax, double ay, double bx, double by, double cx, double cy) { double v = (bx - ax) * (cy - ay) - (by - ay) * (cx - ax); return v > 1e-9 ? 1 : (v < -1e-9 ? -1 : 0); };
    for (size_t i = 0; i < segs.size(); i++) for (size_t j = i + 1; j < segs.size(); j++) {
        const Seg &A = segs[i], &B = segs[j];
        int o1 = o(A.x0, A.y0, A.x1, A.y1, B.x0, B.y0), o2 = o(A.x0, A.y0, A.x1, A.y1, B.x1, B.y1), o3 = o(B.x0, B.y0, B.x1, B.y1, A.x0, A.y0), o4 = o(B.x0, B.y0, B.x1, B.y1, A.x1, A.y1);
        if (o1 * o2 < 0 && o3 * o4 < 0) { violate("C19", "planarise", "edges-cross-after-planarise", fmt("(%g,%g)-(%g,%g) x (%g,%g)-(%g,%g)", A.x0, A.y0, A.x1, A.y1, B.x0, B.y0, B.x1, B.y1)); return; }
    }
    std::map<id_type, std::vector<id_type>> adj;
    for (auto &p : Q->getEdgeLookup()) { id_type a = p.second->getSourceEnd()->id(), b = p.second->getTargetEnd()->id(); adj[a].push_back(b); adj[b].push_back(a); }
    std::map<unsigned, id_type> byext; for (auto &p : ext) byext[p.second] = p.first;
    for (auto &e : edges) {
        id_type a = byext[(unsigned)e.first], b = byext[(unsigned)e.second];
        std::set<id_type> seen{a}; std::vector<id_type> st{a}; bool found = false;
        while (!st.empty() && !found) { id_type u = st.back(); st.pop_back(); for (id_type v : adj[u]) { if (v == b) { found = true; break; } if (ext.count(v)) continue; if (seen.insert(v).second) st.push_back(v); } }
        if (!found) { violate("C19", "planarise", "original-adjacency-lost-after-planarise", fmt("edge %d-%d", e.first, e.second)); return; }
    }
    probe("dialect.c19-planarise-evaluated");
}

void GraphSession::run() {
    const Json &cfg = spec["cfg"];
    for (auto &nj : cfg["nodes"].a) nodes.push_back({nj[0].num(), nj[1].num(), nj[2].num(), nj[3].num()});
    for (auto &ej : cfg["edges"].a) if (ej[0].i() < (long)nodes.size() && ej[1].i() < (long)nodes.size() && ej[0].i() != ej[1].i()) edges.push_back({(int)ej[0].i(), (int)ej[1].i()});
    // shift the process-global id counters (S6): this graph is "the N-th document of the process"
    { LibScope ls; for (long k = 0; k < cfg.i("idshift", 0); k++) Node::allocate(); }
    const Json &ops = spec["ops"];
    for (size_t oi = 0; oi < ops.size(); oi++) {
        curOp = (int)oi;
        const Json &op = ops[oi];
        std::string o = op.str("op", "");
        w->log.ev(o.c_str(), id, (long)oi);
        if (o == "hola") opHola(op);
        else if (o == "peel") opPeel(op);
        else if (o == "components") opComponents(op);
        else if (o == "planarise") opPlanarise(op);
        yield("op");
    }
    curOp = -1;
}
static Session *mkGraph() { return new GraphSession(); }
static SessionRegistrar rg1("graph", mkGraph);

// ---------------------------------------------------------------- generator
Json genGraphSession(Rng &r, const std::string &tier, const std::string &what) {
    Json s = Json::obj(); s.set("kind", "graph");
    Json cfg = Json::obj();
    Json nodes = Json::arr(), edges = Json::arr();
    std::set<std::pair<int, int>> es;
    bool theta = false, thetaChains = false;
    int n;
    if (what == "planarise") {
        int gx = r.range(2, 4), gy = r.range(2, 4); n = gx * gy;
        for (int i = 0; i < n; i++) { Json nj = Json::arr(); nj.push((double)((i % gx) * 120 + r.below(4) * 10)); nj.push((double)((i / gx) * 120 + r.below(4) * 10)); nj.push(30.0); nj.push(30.0); nodes.push(nj); }
        std::vector<int> perm(n); for (int i = 0; i < n; i++) perm[i] = i;
        for (int i = n - 1; i > 0; i--) std::swap(perm[i], perm[r.below(i + 1)]);
        for (int i = 0; i < n; i++) { int a = perm[i], b = perm[(i + 1) % n]; if (a > b) std::swap(a, b); if (a != b) es.insert({a, b}); }
        int extra = (int)r.below(n / 2 + 1);
        for (int k = 0; k < extra; k++) { int a = (int)r.below(n), b = (int)r.below(n); if (a == b) continue; if (a > b) std::swap(a, b); es.insert({a, b}); }
    } else if (what == "hola") {
        n = tier == "thorough" && r.chance(0.3) ? r.range(15, 40) : r.range(3, 14);
        bool wide = r.chance(0.3);         // swarm member: some nodes are labels / containers several times the size of the others
        for (int i = 0; i < n; i++) { Json nj = Json::arr(); nj.push((double)r.below(400)); nj.push((double)r.below(400));
            bool w1 = wide && r.chance(0.3), h1 = wide && r.chance(0.15);
            nj.push((double)(w1 ? 60 + r.below(15) * 10 : 20 + r.below(4) * 10)); nj.push((double)(h1 ? 60 + r.below(10) * 10 : 20 + r.below(3) * 10)); nodes.push(nj); }
        int style = (int)r.below(4);        // tree, cycle-ish, tree + extra edges, hub
        if (n >= 9 && r.chance(0.4)) {
            // style 4: a hub on two cycles (all four sides of the hub taken by core edges) that also carries a small tree -- the
            // tree can then only be placed in an ordinal direction
            style = 4;
            int c1 = 3, c2 = 3;                                   // cycle lengths besides the hub
            int a0 = 1, b0 = 1 + c1;                              // cycle A: 0-1-2-3-0, cycle B: 0-4-5-6-0
            for (int i = 0; i < c1; i++) es.insert({i == 0 ? 0 : a0 + i - 1, a0 + i}); es.insert({0, a0 + c1 - 1});
            for (int i = 0; i < c2; i++) es.insert({i == 0 ? 0 : b0 + i - 1, b0 + i}); es.insert({0, b0 + c2 - 1});
            if (r.chance(0.5)) es.insert({a0, a0 + c1 - 1});      // a chord
            int t0 = 1 + c1 + c2;                                 // tree hanging off the hub: its first node, then random attachments below it
            es.insert({0, t0});
            for (int i = t0 + 1; i < n; i++) es.insert({t0 + (int)r.below(i - t0), i});
        } else {
        for (int i = 1; i < n; i++) { int j = style == 3 ? (r.chance(0.6) ? 0 : (int)r.below(i)) : (int)r.below(i); es.insert({j, i}); }
        int extra = style == 0 ? 0 : style == 1 ? 1 : (int)r.below(n / 2 + 1);
        for (int k = 0; k < extra; k++) { int a = (int)r.below(n), b = (int)r.below(n); if (a == b) continue; if (a > b) std::swap(a, b); es.insert({a, b}); }
        }
        {
            // style 5 "theta" (side stream; replaces the graph drawn above): two or three hubs joined by 3-4 chains of 2-5 link nodes
            // each -- long chains of degree-2 nodes whose bend sequences the chain configuration (useACAforLinks = false) has to choose
            Rng r2(Rng::mix(r.s, "theta"));
            if (r2.chance(0.25)) {
                theta = true; es.clear(); nodes = Json::arr();
                int hubs = r2.range(2, 3), next = hubs;
                for (int h = 0; h < hubs; h++) {
                    int a = h, b = (h + 1) % hubs;
                    if (hubs == 2 && h == 1) break;
                    int paths = hubs == 2 ? r2.range(3, 4) : r2.range(1, 2);
                    for (int pth = 0; pth < paths; pth++) {
                        int len = r2.range(2, 6), prev = a;
                        for (int k = 0; k < len; k++) { es.insert({std::min(prev, next), std::max(prev, next)}); prev = next++; }
                        es.insert({std::min(prev, b), std::max(prev, b)});
                    }
                }
                if (r2.chance(0.3)) { es.insert({0, next}); next++; }      // a leaf on a hub
                n = next;
                for (int i = 0; i < n; i++) { Json nj = Json::arr(); nj.push((double)r2.below(400)); nj.push((double)r2.below(400)); nj.push((double)(20 + r2.below(4) * 10)); nj.push((double)(20 + r2.below(3) * 10)); nodes.push(nj); }
                thetaChains = r2.chance(0.85);
            }
        }
    } else {
        n = r.range(2, tier == "thorough" ? 60 : 30);
        int sizes = what == "peel" ? (int)r.below(3) : 0;      // uniform; mildly varied; some nodes several times larger
        for (int i = 0; i < n; i++) { Json nj = Json::arr(); nj.push((double)r.below(400)); nj.push((double)r.below(400));
            double wd = 20, ht = 20;
            if (sizes >= 1) { wd = 20 + r.below(4) * 10; ht = 20 + r.below(3) * 10; }
            if (sizes == 2) { if (r.chance(0.3)) wd = 60 + r.below(15) * 10; if (r.chance(0.15)) ht = 60 + r.below(10) * 10; }
            nj.push(wd); nj.push(ht); nodes.push(nj); }
        int style = (int)r.below(4);
        bool connected = what == "peel" || style != 3;
        for (int i = 1; i < n; i++) if (connected || r.chance(0.6)) es.insert({(int)r.below(i), i});
        int extra = style == 0 ? 0 : style == 1 ? r.range(1, 3) : (int)r.below(n);
        for (int k = 0; k < extra; k++) { int a = (int)r.below(n), b = (int)r.below(n); if (a == b) continue; if (a > b) std::swap(a, b); es.insert({a, b}); }
    }
    for (auto &e : es) { Json ej = Json::arr(); ej.push(e.first); ej.push(e.second); edges.push(ej); }
    cfg.set("nodes", nodes); cfg.set("edges", edges);
    cfg.set("idshift", (long)(r.chance(0.5) ? 0 : r.below(600)));
    cfg.set("style", what);
    s.set("cfg", cfg);
    Json ops = Json::arr();
    Json o = Json::obj(); o.set("op", what);
    if (what == "hola") {
        if (theta && thetaChains) o.set("useACAforLinks", false); else
        if (cfg.str("style", "") == "hola" && nodes.size() >= 9 && edges.size() >= nodes.size() + 1 && r.chance(0.5)) o.set("useACAforLinks", false);   // chains for links: no ACA destress to repair a misplaced tree
        else if (r.chance(0.5)) o.set("useACAforLinks", r.chance(0.5));
        if (r.chance(0.4)) o.set("do_near_align", r.chance(0.5));
        if (r.chance(0.2)) o.set("preferConvexTrees", r.chance(0.5));
        if (r.chance(0.2)) o.set("defaultTreeGrowthDir", (long)r.below(4));
    }
    if (what == "hola") {
        // the aspect-ratio preference (NONE / PORTRAIT / LANDSCAPE; the final rotation) and the growth direction that breaks its tie: side stream
        Rng r3(Rng::mix(r.s, "aspect"));
        if (r3.chance(0.4)) o.set("preferredAspectRatio", (long)r3.below(3));
        if (r3.chance(0.2)) o.set("preferredTreeGrowthDir", (long)r3.below(4));
    }
    if (what == "peel") { if (r.chance(0.6)) o.set("growth", (long)r.below(4)); if (r.chance(0.2)) o.set("convex", true); }
    ops.push(o);
    if (what != "hola" && r.chance(0.3)) { Json o2 = Json::obj(); o2.set("op", "components"); ops.push(o2); }
    s.set("ops", ops);
    return s;
}
static Json genC14(const std::string &prop, uint64_t seed, const std::string &tier) {
    Rng r(Rng::mix(seed, "plan"));
    Json p = planSkeleton(prop, "dialect", seed, r, 100);
    Json ss = Json::arr();
    if (r.chance(0.3)) ss.push(genGraphSession(r, "quick", r.chance(0.5) ? "peel" : "components"));     // runs first sometimes: shifts ids, stirs the heap
    ss.push(genGraphSession(r, tier, "hola"));
    if (r.chance(0.2)) ss.push(genOverlapSession(r, "quick"));
    p.set("sessions", ss);
    return p;
}
static Json genC19(const std::string &prop, uint64_t seed, const std::string &tier) {
    Rng r(Rng::mix(seed, "plan"));
    Json p = planSkeleton(prop, "dialect", seed, r, 100);
    Json ss = Json::arr();
    int n = r.range(1, 3);
    for (int i = 0; i < n; i++) ss.push(genGraphSession(r, tier, r.pick(std::vector<std::string>{"peel", "peel", "components", "planarise"})));
    p.set("sessions", ss);
    return p;
}
static GenRegistrar gd14("C14", genC14), gd19("C19", genC19);
static Json mixGraph(Rng &r, const std::string &tier, bool) { return genGraphSession(r, "quick", r.pick(std::vector<std::string>{"hola", "peel", "components", "planarise"})); }
static MixGenRegistrar mgg(mixGraph);
