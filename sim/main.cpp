// adaptasim driver: one seed -> one plan -> one execution in a forked child.
//   adaptasim gen    --prop P --seed S [--tier T]
//   adaptasim search --prop P --from A --count N [--step K] [--tier T] [--timeout S]
//   adaptasim replay --plan FILE [--trace] [--timeout S]
//   adaptasim inline --plan FILE        (no fork: for gdb / valgrind)
// "search" prints one JSON line per run that found something and a final
// summary line; "replay" prints the full result of one plan.
#include "core.h"
#include <cstdio>
#include <cstdlib>
#include <unistd.h>
#include <fcntl.h>
#include <poll.h>
#include <signal.h>
#include <sys/wait.h>
#include <sys/mman.h>
#include <sys/personality.h>
#include <sys/resource.h>
#include <fstream>
#include <sstream>
#include <chrono>
#include <algorithm>

#ifdef SIM_SAN
extern "C" int __lsan_do_recoverable_leak_check(void);
extern "C" __attribute__((used)) const char *__asan_default_options() {
    return "exitcode=77:detect_leaks=1:leak_check_at_exit=0:abort_on_error=0:detect_stack_use_after_return=0:malloc_context_size=10";
}
extern "C" __attribute__((used)) const char *__ubsan_default_options() { return "print_stacktrace=0:halt_on_error=0"; }
extern "C" __attribute__((used)) const char *__lsan_default_options() { return "print_suppressions=0:report_objects=0"; }
#endif

static std::string readFile(const std::string &p) {
    std::ifstream f(p); std::stringstream ss; ss << f.rdbuf(); return ss.str();
}
static double nowS() {
    return std::chrono::duration<double>(std::chrono::steady_clock::now().time_since_epoch()).count();
}

// An assertion (CriticalFailure) thrown while another one unwinds, or out of a destructor, ends in std::terminate:
// say which assertion it was, so that the crash gets a signature of its own.
#include "libvpsc/assertions.h"
#include "sigs.h"
static void simTerminate() {
    try {
        std::exception_ptr e = std::current_exception();
        if (e) std::rethrow_exception(e);
        fprintf(stderr, "SIMTERMINATE: no-active-exception\n");
    } catch (vpsc::CriticalFailure &f) {
        fprintf(stderr, "SIMTERMINATE: %s\n", assertSig(f).c_str());
    } catch (std::exception &e) {
        fprintf(stderr, "SIMTERMINATE: std::exception\n");
    } catch (...) {
        fprintf(stderr, "SIMTERMINATE: unknown\n");
    }
    fflush(stderr);
    abort();
}

// crash signature for the plain build: raw return addresses (ASLR is off, so they are stable), resolved by the parent
#include <execinfo.h>
static void crashHandler(int sig) {
    void *bt[48];
    int n = backtrace(bt, 48);
    char buf[64];
    int k = snprintf(buf, sizeof buf, "SIMCRASH signal %d\n", sig);
    if (write(2, buf, (size_t)k) < 0) {}
    for (int i = 0; i < n; i++) { k = snprintf(buf, sizeof buf, "SIMFRAME %p\n", bt[i]); if (write(2, buf, (size_t)k) < 0) {} }
    signal(sig, SIG_DFL);
    raise(sig);
}

static Json runWorldHere(const Json &plan, bool trace) {
    World *w = new World();
    w->log.trace = trace;
    w->load(plan);
    w->runAll();
    return w->result();
}

// ---- sanitizer report parsing (parent side)
static std::string repoFrame(const std::string &line) {
    // "... in func /repo/cola/libavoid/router.cpp:233" -> libavoid/router.cpp:233
    // any checkout location: .../cola/lib<name>/...
    size_t p = line.find("/cola/lib");
    if (p == std::string::npos) return "";
    std::string s = line.substr(p + 6);
    size_t e = s.find_first_of(" \n)");
    if (e != std::string::npos) s = s.substr(0, e);
    // drop column
    size_t c1 = s.find(':');
    if (c1 != std::string::npos) { size_t c2 = s.find(':', c1 + 1); if (c2 != std::string::npos) s = s.substr(0, c2); }
    return s;
}
// file (without line) of a "/repo/cola/<lib>/<file>:<line>" mention
static std::string repoFile(const std::string &line) {
    std::string s = repoFrame(line);
    size_t c = s.find(':');
    return c == std::string::npos ? s : s.substr(0, c);
}
// sanitizer stack frame "    #1 0x... in Avoid::X::f(int) /repo/cola/libavoid/x.cpp:12:3" -> "libavoid/x.cpp:X::f"
static std::string repoFrameFunc(const std::string &line) {
    std::string file = repoFile(line);
    if (file.empty()) return "";
    size_t a = line.find(" in "), b = line.find("/cola/lib"); if (b != std::string::npos) b = line.rfind(' ', b);
    std::string fn = a != std::string::npos && b != std::string::npos && b > a + 4 ? sigFunc(line.substr(a + 4, b - a - 4)) : "?";
    return file + ":" + fn;
}
// addr2line -f -C prints two lines per address (function, file:line): first pair whose file is inside /repo
static std::string firstRepoFrameOf(const std::string &addrs) {
    char exe[512]; ssize_t el = readlink("/proc/self/exe", exe, sizeof exe - 1); exe[el > 0 ? el : 0] = 0;
    FILE *pp = popen((std::string("addr2line -f -C -e ") + exe + addrs).c_str(), "r");
    std::string loc;
    if (pp) {
        char fb[2048], lb[2048];
        // the FILE is that of the innermost /repo frame; the FUNCTION is the outermost of the consecutive frames in that file
        // (the entry into the file): extracting a few lines into a helper inside the file does not rename the signature
        std::string f0; bool closed = false;
        while (fgets(fb, sizeof fb, pp) && fgets(lb, sizeof lb, pp)) {
            std::string file = repoFile(lb);
            if (f0.empty()) { if (!file.empty()) { f0 = file; loc = file + ":" + sigFunc(fb); } }
            else if (!closed) { if (file == f0) loc = file + ":" + sigFunc(fb); else closed = true; }
        }
        pclose(pp);
    }
    return loc;
}
static void parseSanitizer(const std::string &err, Json &res, bool thrownAssert) {
    std::istringstream is(err);
    std::string line;
    std::set<std::string> seen;
    Json v = res["violations"];
    if (v.t != Json::ARR) v = Json::arr();
    auto add = [&](const std::string &clause, const std::string &sig, const std::string &detail) {
        if (seen.count(sig)) return;
        seen.insert(sig);
        Json j = Json::obj();
        // the sanitizer prefixes its lines with the process id ("==12345=="): not part of the (replayable) result
        std::string d = detail;
        if (d.rfind("==", 0) == 0) { size_t e = d.find("==", 2); if (e != std::string::npos && e < 12) d = d.substr(e + 2); }
        j.set("prop", "C15"); j.set("clause", clause); j.set("sig", sig); j.set("detail", d);
        j.set("session", -1); j.set("op", -1);
        v.push(j);
    };
    std::string pendingKind, pendingDetail, pendingLoc; int framesLeft = 0;
    auto flushPending = [&]() {
        if (pendingKind == "leak") {
            if (thrownAssert) add("leak", "leak-after-assert", pendingDetail + " @" + pendingLoc);
            else add("leak", "leak@" + pendingLoc, pendingDetail);
        } else if (!pendingKind.empty()) add("memory", pendingKind + "@" + pendingLoc, pendingDetail);
        pendingKind = ""; pendingLoc = "";
    };
    while (std::getline(is, line)) {
        size_t re = line.find("runtime error:");
        if (re != std::string::npos) {
            std::string loc = repoFile(line);
            std::string msg = line.substr(re + 15);
            // normalise message: drop concrete values
            std::string kind = msg;
            for (const char *k : {"load of value", "signed integer overflow", "index", "member call", "member access", "null pointer", "division by zero", "downcast", "shift", "misaligned", "outside the range", "reference binding", "applying", "call to function"})
                if (msg.find(k) != std::string::npos) { kind = k; break; }
            if (kind == "load of value") kind = msg.find("'bool'") != std::string::npos ? "invalid-bool" : "invalid-enum";
            if (loc.empty()) loc = "?";
            add("ub", "UBSan:" + kind + "@" + loc, line);
            continue;
        }
        if (!pendingLoc.empty() && (line.find("ERROR: AddressSanitizer:") != std::string::npos || line.find("leak of") != std::string::npos)) flushPending();
        if (line.find("ERROR: AddressSanitizer:") != std::string::npos) {
            size_t p = line.find("AddressSanitizer:") + 18;
            std::string k = line.substr(p);
            size_t e = k.find(' ');
            if (e != std::string::npos) k = k.substr(0, e);
            pendingKind = "ASan:" + k; pendingDetail = line; framesLeft = 40;
            continue;
        }
        if (line.find("Direct leak of") != std::string::npos) {
            pendingKind = "leak"; pendingDetail = line; framesLeft = 16;
            continue;
        }
        if (line.find("Indirect leak of") != std::string::npos) { pendingKind = ""; framesLeft = 0; continue; }
        if (framesLeft > 0 && !pendingKind.empty()) {
            if (line.find("    #") != std::string::npos) {
                framesLeft--;
                std::string loc = repoFrameFunc(line);
                // innermost /repo frame fixes the file; keep walking outwards while the frames stay in that file (see firstRepoFrameOf)
                if (!loc.empty() && pendingLoc.empty()) { pendingLoc = loc; continue; }
                if (!pendingLoc.empty() && !loc.empty() && loc.substr(0, loc.find(':')) == pendingLoc.substr(0, pendingLoc.find(':'))) { pendingLoc = loc; continue; }
                if (!pendingLoc.empty()) flushPending();
            } else if (line.empty() || !pendingLoc.empty()) {
                if (!pendingLoc.empty()) flushPending();
                else { if (pendingKind.rfind("ASan:", 0) == 0) add("memory", pendingKind + "@?", pendingDetail); pendingKind = ""; }
            }
        }
        if (line.find("SIMALLOC:") != std::string::npos) {
            // signature = kind of damage + the first /repo frame of the place that frees the damaged block (its owner)
            std::string kind = "simalloc:" + line.substr(line.find("SIMALLOC:") + 10, 24), detail = line;
            std::string cmd; std::streampos back = is.tellg(); std::string fl; int nf = 0;
            while (std::getline(is, fl) && fl.rfind("SIMAFRAME ", 0) == 0) { if (nf++ < 24) cmd += " " + fl.substr(10); back = is.tellg(); }
            is.clear(); is.seekg(back);
            std::string loc = cmd.empty() ? "" : firstRepoFrameOf(cmd);
            add("memory", kind + (loc.empty() ? "" : "@freed-at:" + loc), detail);
        }
    }
    if (!pendingLoc.empty()) flushPending();
    if (pendingKind.rfind("ASan:", 0) == 0) add("memory", pendingKind + "@?", pendingDetail);
    res.set("violations", v);
}

// ---- run one plan in a forked child; returns result JSON (always has "status")
static Json execPlan(const Json &plan, double timeoutS, bool trace) {
    int fd[2];
    if (pipe(fd)) { perror("pipe"); exit(2); }
    int efd = memfd_create("simerr", 0);
    fflush(stdout); fflush(stderr);
    double t0 = nowS();
    pid_t pid = fork();
    if (pid < 0) { perror("fork"); exit(2); }
    if (pid == 0) {
        close(fd[0]);
        dup2(efd, 2);
        { int nul = open("/dev/null", O_WRONLY); if (nul >= 0) { dup2(nul, 1); close(nul); } }   // the libraries print diagnostics to stdout
        struct rlimit rl = {0, 0}; setrlimit(RLIMIT_CORE, &rl);
        std::set_terminate(simTerminate);
#ifndef SIM_SAN
        {
            struct sigaction sa; memset(&sa, 0, sizeof sa); sa.sa_handler = crashHandler; sa.sa_flags = SA_ONSTACK | SA_NODEFER;
            sigaction(SIGSEGV, &sa, nullptr); sigaction(SIGBUS, &sa, nullptr); sigaction(SIGFPE, &sa, nullptr); sigaction(SIGILL, &sa, nullptr);
        }
#endif
        Json r;
        try {
            r = runWorldHere(plan, trace);
        } catch (std::exception &e) {
            r = Json::obj(); r.set("harness_error", e.what());
        }
#ifdef SIM_SAN
        if (plan.boolean("leakcheck", true)) {
            int leaks = __lsan_do_recoverable_leak_check();
            r.set("lsan", leaks);
        }
#endif
        std::string out = r.dump();
        size_t off = 0;
        while (off < out.size()) { ssize_t k = write(fd[1], out.data() + off, out.size() - off); if (k <= 0) break; off += (size_t)k; }
        close(fd[1]);
        _exit(0);
    }
    close(fd[1]);
    std::string buf;
    bool timedOut = false;
    for (;;) {
        double left = timeoutS - (nowS() - t0);
        if (left <= 0) { timedOut = true; break; }
        struct pollfd pf = {fd[0], POLLIN, 0};
        int pr = poll(&pf, 1, (int)std::min(left * 1000 + 1, 1000.0));
        if (pr < 0) continue;
        if (pr == 0) continue;
        char tmp[65536];
        ssize_t k = read(fd[0], tmp, sizeof tmp);
        if (k <= 0) break;
        buf.append(tmp, (size_t)k);
    }
    close(fd[0]);
    if (timedOut) kill(pid, SIGKILL);
    int st = 0;
    waitpid(pid, &st, 0);
    std::string err;
    {
        off_t n = lseek(efd, 0, SEEK_END);
        if (n > 0) { off_t start = 0; if (n > (1 << 20)) { start = n - (1 << 20); n = 1 << 20; } err.resize((size_t)n); lseek(efd, start, SEEK_SET); ssize_t k = read(efd, &err[0], (size_t)n); if (k >= 0) err.resize((size_t)k); }   // keep the tail
        close(efd);
    }
    Json res;
    bool parsed = false;
    if (!buf.empty()) { try { res = Json::parse(buf); parsed = true; } catch (...) {} }
    if (!parsed) res = Json::obj();
    std::string status = "ok";
    if (timedOut) status = "timeout";
    else if (WIFSIGNALED(st)) status = fmt("signal%d", WTERMSIG(st));
    else if (WIFEXITED(st) && WEXITSTATUS(st) != 0) status = fmt("exit%d", WEXITSTATUS(st));
    else if (!parsed) status = "noresult";
    res.set("status", status);
    res.set("wall_ms", (nowS() - t0) * 1000);
    bool thrownAssert = false;
    if (parsed) for (auto &kv : res["probes"].o) if (kv.first.rfind("assert@", 0) == 0) thrownAssert = true;
    if (!err.empty()) parseSanitizer(err, res, thrownAssert);
    if (status != "ok") {
        // a crash / hang is a C15 matter (memory error or non-termination)
        Json v = res["violations"]; if (v.t != Json::ARR) v = Json::arr();
        bool have = false;
        for (auto &x : v.a) if (x.str("prop", "") == "C15" && x.str("clause", "") == "memory") have = true;
        if (!have) {
            Json j = Json::obj();
            j.set("prop", "C15"); j.set("clause", status == "timeout" ? "termination" : "crash");
            std::string csig = status == "timeout" ? "timeout" : "crash:" + status;
            if (err.find("SIMFRAME ") != std::string::npos) {
                // first frame inside /repo, resolved with addr2line
                std::string cmd;
                std::istringstream es(err); std::string ln; int nf = 0;
                while (std::getline(es, ln)) if (ln.rfind("SIMFRAME ", 0) == 0 && nf++ < 40) cmd += " " + ln.substr(9);
                std::string loc = cmd.empty() ? "" : firstRepoFrameOf(cmd);
                if (!loc.empty()) csig += "@" + loc;
            }
            size_t tp = err.find("SIMTERMINATE: ");
            if (tp != std::string::npos) { std::string t = err.substr(tp + 14); t = t.substr(0, t.find('\n')); csig = "crash:terminate:" + t; }
            j.set("sig", csig);
            j.set("detail", err.substr(0, 400)); j.set("session", -1); j.set("op", -1);
            v.push(j);
        }
        res.set("violations", v);
    }
    if (!err.empty() && (trace || status != "ok")) res.set("stderr", err.size() > 6000 ? err.substr(err.size() - 6000) : err);
    return res;
}

// ---- C20: the subject session alone vs in a busy world vs another heap
static Json soloVariant(const Json &plan) {
    Json p = plan;
    long sj = plan["subject"].i();
    Json ss = Json::arr();
    ss.push(plan["sessions"][(size_t)sj]);
    p.set("sessions", ss);
    p.set("subject", 0);
    Json al = Json::obj(); al.set("seed", 1); al.set("placement", "lifo"); al.set("fill", "ab");
    p.set("alloc", al);
    p.set("schedule", Json::arr());
    return p;
}
static bool obsEqual(const Json &a, const Json &b, const Json &exact, std::string &where) {
    if (a.size() != b.size()) { where = fmt("op count %zu vs %zu", a.size(), b.size()); return false; }
    for (size_t i = 0; i < a.size(); i++) {
        if (a[i].size() != b[i].size()) { where = fmt("op %zu: %zu vs %zu values", i, a[i].size(), b[i].size()); return false; }
        bool ex = exact[i].i(1) != 0;
        for (size_t k = 0; k < a[i].size(); k++) {
            double x = a[i][k].num(), y = b[i][k].num();
            bool same = ex ? (memcmp(&x, &y, 8) == 0 || (x == y)) : (std::fabs(x - y) <= 1e-9 * std::max(1.0, std::fabs(x)));
            if (std::isnan(x) && std::isnan(y)) same = true;
            if (!same) { where = fmt("op %zu value %zu: %.17g vs %.17g", i, k, x, y); return false; }
        }
    }
    return true;
}
static Json execCase(const Json &plan, double timeoutS, bool trace) {
    if (!plan.boolean("c20", false)) return execPlan(plan, timeoutS, trace);
    // variant A: solo; B: the plan as given; C: same world, other alloc seed/placement
    Json a = execPlan(soloVariant(plan), timeoutS, false);
    Json b = execPlan(plan, timeoutS, trace);
    Json pc = plan;
    {
        Json al = plan["alloc"];
        al.set("seed", al.num("seed", 1) + 7777);
        std::string pl = al.str("placement", "random");
        al.set("placement", pl == "random" ? "fifo" : "random");
        pc.set("alloc", al);
    }
    Json c = execPlan(pc, timeoutS, false);
    Json res = b;
    Json v = res["violations"]; if (v.t != Json::ARR) v = Json::arr();
    long sj = plan["subject"].i();
    std::string kind = plan["sessions"][(size_t)sj].str("kind", "?");
    std::string style = plan["sessions"][(size_t)sj]["cfg"].str("style", "");
    auto cmp = [&](const Json &x, const Json &y, const char *which) {
        if (x.str("status", "") != "ok" || y.str("status", "") != "ok") return;
        if (!x.has("obs") || !y.has("obs")) return;
        std::string where;
        if (!obsEqual(x["obs"], y["obs"], x["obs_exact"], where)) {
            Json j = Json::obj();
            j.set("prop", "C20"); j.set("clause", "repeat");
            // which op kind diverged
            size_t opi = 0; sscanf(where.c_str(), "op %zu", &opi);
            std::string opk = plan["sessions"][(size_t)sj]["ops"][opi].str("op", "?");
            j.set("sig", "digest(" + kind + (style.empty() ? "" : ":" + style) + "/" + opk + ") differs");
            j.set("detail", std::string(which) + ": " + where);
            j.set("session", sj); j.set("op", (long)opi);
            v.push(j);
        }
    };
    cmp(a, b, "solo-vs-world");
    cmp(b, c, "world-vs-otherheap");
    // variant D: the statement itself -- the same calls a second time in the SAME process, after everything else the world
    // did (static caches, counters and generators that outlive an object show up here and nowhere else)
    {
        Json pd = plan;
        Json ss = plan["sessions"];
        ss.push(plan["sessions"][(size_t)sj]);
        pd.set("sessions", ss);
        pd.set("subject2", (long)ss.size() - 1);
        Json d = execPlan(pd, timeoutS, false);
        if (d.str("status", "") == "ok" && d.has("obs") && d.has("obs2")) {
            Json x = Json::obj(); x.set("status", "ok"); x.set("obs", d["obs"]); x.set("obs_exact", d["obs_exact"]);
            Json y = Json::obj(); y.set("status", "ok"); y.set("obs", d["obs2"]);
            cmp(x, y, "first-vs-second-time-in-one-process");
        }
    }
    res.set("violations", v);
    res.set("variants", 4);
    if (a.str("status", "") != "ok") res.set("status", "solo:" + a.str("status", ""));
    return res;
}

static const char *arg(int argc, char **argv, const char *name, const char *def) {
    for (int i = 2; i + 1 < argc; i++) if (!strcmp(argv[i], name)) return argv[i + 1];
    return def;
}
static bool flag(int argc, char **argv, const char *name) {
    for (int i = 2; i < argc; i++) if (!strcmp(argv[i], name)) return true;
    return false;
}

int main(int argc, char **argv) {
    if (!getenv("ADAPTASIM_NOASLR")) {
        int p = personality(0xffffffff);
        if (p != -1 && !(p & ADDR_NO_RANDOMIZE) && personality(p | ADDR_NO_RANDOMIZE) != -1) {
            setenv("ADAPTASIM_NOASLR", "1", 1);
            execv("/proc/self/exe", argv);
        }
    }
    if (argc < 2) { fprintf(stderr, "usage: adaptasim gen|search|replay|inline ...\n"); return 2; }
    std::string cmd = argv[1];
    std::string prop = arg(argc, argv, "--prop", "");
    std::string tier = arg(argc, argv, "--tier", "quick");
    double timeoutS = atof(arg(argc, argv, "--timeout", tier == "quick" ? "30" : "120"));
    try {
        if (cmd == "gen") {
            uint64_t seed = strtoull(arg(argc, argv, "--seed", "1"), nullptr, 10);
            printf("%s\n", genPlan(prop, seed, tier).dump().c_str());
            return 0;
        }
        if (cmd == "replay" || cmd == "inline") {
            Json plan = Json::parse(readFile(arg(argc, argv, "--plan", "")));
            bool trace = flag(argc, argv, "--trace");
            Json r = cmd == "inline" ? runWorldHere(plan, trace) : execCase(plan, timeoutS, trace);
            printf("%s\n", r.dump().c_str());
            return 0;
        }
        if (cmd == "search") {
            uint64_t from = strtoull(arg(argc, argv, "--from", "1"), nullptr, 10);
            long count = atol(arg(argc, argv, "--count", "100"));
            long step = atol(arg(argc, argv, "--step", "1"));
            double budget = atof(arg(argc, argv, "--budget", "1e9"));   // wall seconds
            bool all = flag(argc, argv, "--all");
            double t0 = nowS();
            std::map<std::string, long> probes, faults, statuses;
            std::vector<std::string> hashes;      // of non-trivial runs
            std::map<std::string, long> sigCounts;
            long runs = 0, yields = 0, switches = 0, cbsw = 0, simms = 0, nontrivial = 0, inverted = 0, allocs = 0;
            Json samples = Json::arr();
            for (long k = 0; k < count; k++) {
                if (nowS() - t0 > budget) break;
                uint64_t seed = from + (uint64_t)k * (uint64_t)step;
                Json plan = genPlan(prop, seed, tier);
                Json r = execCase(plan, timeoutS, false);
                runs++;
                statuses[r.str("status", "?")]++;
                yields += r.i("yields", 0); switches += r.i("switches", 0); cbsw += r.i("cb_switches", 0); simms += r.i("sim_ms", 0);
                inverted += r["alloc"].i("inverted", 0); allocs += r["alloc"].i("allocs", 0);
                for (auto &kv : r["probes"].o) probes[kv.first] += kv.second.i();
                for (auto &kv : r["faults"].o) faults[kv.first] += kv.second.i();
                bool nt = r["probes"].size() > 0;
                if (nt) { nontrivial++; hashes.push_back(r.str("hash", "")); }
                if (samples.size() < 2 && nt) samples.push(plan);
                bool interesting = r.str("status", "") != "ok" || r.has("harness_error");
                for (auto &v : r["violations"].a) {
                    std::string key = v.str("prop", "") + "|" + v.str("clause", "") + "|" + v.str("sig", "");
                    if (sigCounts[key]++ < 5) interesting = true;     // at most 5 full reports per signature per worker
                }
                if (interesting || all) {
                    Json line = Json::obj();
                    line.set("type", "run"); line.set("seed", (double)seed);
                    line.set("result", r);
                    if (interesting) line.set("plan", plan);
                    printf("%s\n", line.dump().c_str());
                    fflush(stdout);
                }
            }
            Json s = Json::obj();
            s.set("type", "summary"); s.set("runs", runs); s.set("nontrivial", nontrivial);
            s.set("yields", yields); s.set("switches", switches); s.set("cb_switches", cbsw); s.set("sim_ms", simms);
            s.set("alloc_inverted", inverted); s.set("allocs", allocs);
            Json jp = Json::obj(); for (auto &kv : probes) jp.set(kv.first, kv.second); s.set("probes", jp);
            Json jf = Json::obj(); for (auto &kv : faults) jf.set(kv.first, kv.second); s.set("faults", jf);
            Json js = Json::obj(); for (auto &kv : statuses) js.set(kv.first, kv.second); s.set("statuses", js);
            Json jc = Json::obj(); for (auto &kv : sigCounts) jc.set(kv.first, kv.second); s.set("sig_counts", jc);
            Json jh = Json::arr(); for (auto &h : hashes) jh.push(h); s.set("hashes", jh);
            s.set("samples", samples);
            s.set("wall_s", nowS() - t0);
            printf("%s\n", s.dump().c_str());
            return 0;
        }
    } catch (std::exception &e) {
        fprintf(stderr, "adaptasim: %s\n", e.what());
        return 2;
    }
    fprintf(stderr, "unknown command %s\n", cmd.c_str());
    return 2;
}
