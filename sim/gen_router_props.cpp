// Plan generators for the router properties C03 C04 C05 C06.
#include "router_gen.h"
enum { P_segment = 0, P_angle, P_crossing, P_clusterCrossing, P_fixedShared, P_portDir, P_buffer, P_nudgeDist, P_reverse };
enum { O_nudgeAttached = 0, O_hyperMove, O_penaliseSharedEnds, O_nudgeTouching, O_unifying, O_hyperAddDel, O_nudgeCommonEnd };

void addPinOps(RouterGenCfg &g, bool zeroInside);
void addJunctionOps(RouterGenCfg &g, double pEnd);
static void tunables(Rng &r, RouterGenCfg &g) { g.selective = r.chance(0.8); g.invis = r.chance(0.8); g.lees = r.chance(0.7); }
static void addNoise(Rng &r, Json &ss, const std::string &tier) {
    if (r.chance(0.35)) ss.push(r.chance(0.5) ? genOverlapSession(r, "quick") : genSolverSession(r, "quick"));
    (void)tier;
}

static Json genC03(const std::string &prop, uint64_t seed, const std::string &tier) {
    Rng r(Rng::mix(seed, "plan"));
    Json p = planSkeleton(prop, "router", seed, r, 200);
    Json ss = Json::arr();
    int n = r.chance(0.3) ? 2 : 1;
    for (int i = 0; i < n; i++) {
        RouterGenCfg g;
        g.ortho = r.chance(0.5);
        g.polygons = !g.ortho || r.chance(0.3);
        g.costOracles = false;
        g.transactions = !r.chance(0.15);
        tunables(r, g);
        int member = (int)r.below(10);
        g.params[P_segment] = r.pick(std::vector<double>{0, 10, 50, 200});
        if (g.ortho && g.params[P_segment] == 0) g.params[P_segment] = 10;
        if (member == 0 || member == 1) { g.touching = true; g.gap = 0; }                    // touching shapes, collinear edges
        else if (member == 2) { double b = r.pick(std::vector<double>{4, 8}); g.params[P_buffer] = b; g.gap = 2 * b + 5; g.endMargin = b + 1; g.polygons = false;
            // side stream: shapes closer to each other than twice the buffer (their routing boxes overlap, nothing can pass between them)
            Rng r2(Rng::mix(r.s, "close-buffered")); if (r2.chance(0.5)) { g.gap = r2.pick(std::vector<double>{5, b, 0}); if (g.gap == 0) g.touching = true; } }
        else if (member == 3 || member == 4) { g.params[P_crossing] = r.pick(std::vector<double>{100, 200}); g.cancelFaults = true; if (r.chance(0.5)) g.params[P_fixedShared] = 110; }
        else if (member == 5) { g.params[P_angle] = r.pick(std::vector<double>{0, 20}); g.dirRestrict = true; }
        else if (member == 6) addPinOps(g, false);
        else if (member == 8) { g.ortho = true; g.polygons = false; addJunctionOps(g, 0.5); g.pinsGeometry = true; g.minShapes = 3; }   // free junctions: routes as adjusted by hyperedge improvement (on by default) are judged too
        else if (member == 7) { g.allowCover = true; g.polygons = false; }      // shapes dragged over free end points and on      // end points on pins (insideOffset >= 1): the route may only pass through the shapes it is attached to
        if (g.ortho) { g.params[P_nudgeDist] = r.pick(std::vector<double>{0, 4, 10}); g.options[O_nudgeAttached] = r.chance(0.3); g.options[O_unifying] = r.chance(0.7); g.options[O_nudgeTouching] = r.chance(0.3); }
        g.outputOps = r.chance(0.2);
        if (tier == "thorough") { g.maxShapes = 10; g.maxConns = 8; g.maxSteps = 10; }
        ss.push(genRouterSession(r, g));
    }
    addNoise(r, ss, tier);
    p.set("sessions", ss);
    return p;
}
static Json genC04(const std::string &prop, uint64_t seed, const std::string &tier) {
    Rng r(Rng::mix(seed, "plan"));
    Json p = planSkeleton(prop, "router", seed, r, 100);
    Json ss = Json::arr();
    RouterGenCfg g;
    g.ortho = false; g.polygons = true; g.gap = 5;
    g.params[P_segment] = r.pick(std::vector<double>{0, 0, 10, 50, 200});
    tunables(r, g);
    g.selective = true;      // the documented default; with the heuristic off stale (longer) routes are expected
    g.maxConns = 4; g.maxShapes = tier == "thorough" ? 10 : 8;
    ss.push(genRouterSession(r, g));
    addNoise(r, ss, tier);
    p.set("sessions", ss);
    return p;
}
static Json genC05(const std::string &prop, uint64_t seed, const std::string &tier) {
    Rng r(Rng::mix(seed, "plan"));
    Json p = planSkeleton(prop, "router", seed, r, 100);
    Json ss = Json::arr();
    RouterGenCfg g;
    g.ortho = true; g.polygons = false; g.gap = 5;
    g.params[P_segment] = r.pick(std::vector<double>{1, 10, 50, 200});
    g.params[P_nudgeDist] = r.pick(std::vector<double>{0, 4, 10});
    if (r.chance(0.3)) { double b = r.pick(std::vector<double>{4, 8}); g.params[P_buffer] = b; g.gap = 2 * b + 5; g.endMargin = b + 1; }
    tunables(r, g);
    g.maxConns = 4; g.maxShapes = tier == "thorough" ? 10 : 8;
    if (r.chance(0.4)) g.edgeLines = 0.4;      // end points on the lines of shape sides
    { Rng r2(Rng::mix(r.s, "scan-companion-cfg")); if (r2.chance(0.35)) g.scanCompanion = 0.5; }      // see SceneGen::addConn
    // configuration changed on the live router: the segment penalty is set anew between transactions (6 % of the edits); every
    // orthogonal connector is then re-routed, and the reference model prices bends with the value in force
    g.wMove = 54;
    g.editHook = [](SceneGen &sg, Json &ops) { Json o = Json::obj(); o.set("op", "setParam"); o.set("param", (long)P_segment); o.set("value", sg.r.pick(std::vector<double>{1, 10, 50, 200})); ops.push(o); };
    ss.push(genRouterSession(r, g));
    addNoise(r, ss, tier);
    p.set("sessions", ss);
    return p;
}
static Json genC06(const std::string &prop, uint64_t seed, const std::string &tier) {
    Rng r(Rng::mix(seed, "plan"));
    Json p = planSkeleton(prop, "router", seed, r, 200);
    Json ss = Json::arr();
    int n = r.chance(0.25) ? 2 : 1;
    for (int i = 0; i < n; i++) {
        RouterGenCfg g;
        g.ortho = r.chance(0.4);
        g.polygons = !g.ortho && r.chance(0.6);
        g.transactions = !r.chance(0.2);
        g.params[P_segment] = g.ortho ? r.pick(std::vector<double>{10, 50}) : 0;
        if (g.ortho) g.params[P_nudgeDist] = r.pick(std::vector<double>{0, 4});
        tunables(r, g);
        if (r.chance(0.15)) { g.params[P_crossing] = 150; g.cancelFaults = true; g.costOracles = false; }   // cancel + recovery clause: validity only
        g.trailingEdits = true;
        if (!g.ortho && r.chance(0.25)) { g.allowCover = true; g.polygons = false; }     // histories in which a shape passes over a free end point
        if (tier == "thorough") { g.maxShapes = 10; g.maxConns = 8; g.maxSteps = 10; g.maxEditsPerTxn = 4; }
        ss.push(genRouterSession(r, g));
    }
    addNoise(r, ss, tier);
    p.set("sessions", ss);
    return p;
}
static GenRegistrar gr3("C03", genC03), gr4("C04", genC04), gr5("C05", genC05), gr6("C06", genC06);
